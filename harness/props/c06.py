"""C06 — a failing algorithm is reported and never wedges the study.

Tie/property stages: (a) scripted-Pythia histories with a high failure rate (model vs real, Lean
predicates on real snapshots: no pending operation, lifecycle invariants); (b) the REAL
PythiaServicer hosting a failing policy — in-process and behind a real gRPC Pythia server — with
exception types drawn from a zoo, failing at the first / k-th / every call or delivering 0..n+2
suggestions, followed by further calls of the same and another worker, including the client's
polling loop (bounded)."""
import datetime

from vcheck import core, svccheck, svc

WEIGHTS = {'createStudy': 2, 'getStudy': 0, 'listStudies': 0, 'deleteStudy': 1, 'setStudyState': 1,
           'createTrial': 3, 'suggest': 16, 'getOperation': 2, 'getTrial': 0, 'listTrials': 1,
           'addMeasurement': 1, 'complete': 6, 'stop': 1, 'deleteTrial': 2, 'checkEarlyStop': 8,
           'updateMetadata': 1, 'listOptimal': 0}


class CustomError(Exception):
  pass


class CustomNotImplemented(NotImplementedError):
  pass


class CustomLookup(KeyError):
  pass


# "an exception of any type": builtin families a policy can plausibly raise, incl. the ones library code
# likes to special-case (NotImplementedError, KeyError/LookupError, StopIteration, OSError/TimeoutError)
EXC_ZOO = [ValueError, RuntimeError, KeyError, ZeroDivisionError, CustomError, IndexError, TypeError, AssertionError,
           NotImplementedError, CustomNotImplemented, CustomLookup, LookupError, AttributeError, ArithmeticError, OSError,
           TimeoutError, StopIteration, OverflowError, FloatingPointError, UnicodeError, EOFError, ImportError, NameError,
           BufferError, MemoryError, RecursionError]


def _library_errors():
  """the error classes the Pythia layer itself documents for policies (vizier/_src/pythia/pythia_errors.py): whatever
  their place in the class hierarchy, raising one is 'the algorithm raises'"""
  from vizier._src.pythia import pythia_errors as pe
  out = []
  for name in sorted(dir(pe)):
    obj = getattr(pe, name)
    if isinstance(obj, type) and issubclass(obj, BaseException) and obj.__module__ == pe.__name__:
      out.append(obj)
  return out


def make_policy_factory(script):
  """script: dict with 'plan' = list of per-call behaviours for suggest: ('raise', ExcType) or ('deliver', delta)
  cycling; 'es' likewise with ('raise', Exc) or ('ok',)."""
  from vizier import pythia
  from vizier import pyvizier as vz

  class ScriptedPolicy(pythia.Policy):
    def __init__(self, supporter):
      self._supporter = supporter

    def suggest(self, request):
      i = script['suggest_calls']
      script['suggest_calls'] += 1
      kind, arg = script['plan'][i % len(script['plan'])]
      if kind == 'raise':
        raise arg('scripted failure %d' % i)
      n = max(0, request.count + arg)
      script['tok'] += n
      return pythia.SuggestDecision(
          suggestions=[vz.TrialSuggestion({'x': float(script['tok'] - k)}) for k in range(n)],
          metadata=vz.MetadataDelta())

    def early_stop(self, request):
      i = script['es_calls']
      script['es_calls'] += 1
      kind, arg = script['es'][i % len(script['es'])]
      if kind == 'raise':
        raise arg('scripted early-stop failure %d' % i)
      return pythia.EarlyStopDecisions(
          decisions=[pythia.EarlyStopDecision(id=t, reason='r', should_stop=False) for t in request.trial_ids],
          metadata=vz.MetadataDelta())

    @property
    def should_be_cached(self):
      return False

  def factory(problem_statement, algorithm, policy_supporter, study_name):
    return ScriptedPolicy(policy_supporter)
  return factory


def fault_stage(c, remote):
  """Real PythiaServicer + failing policy. Judges: every SuggestTrials answer is a finished operation
  (error or trials), no operation is left pending, a later call with a now-working algorithm hands out
  trials, the client's get_suggestions terminates, early stopping is consulted again after a failure."""
  from vizier._src.service import vizier_service, pythia_service, vizier_server, vizier_client
  for e in _library_errors():
    if e not in EXC_ZOO:
      EXC_ZOO.append(e)
  from vizier._src.service import vizier_service_pb2 as vsp, study_pb2, custom_errors, resources
  from vizier._src.service import vizier_oss_pb2
  from vcheck import svcreal
  import grpc
  n = (6 if remote else 40) if c.tier == 'quick' else (40 if remote else 500)
  for it in range(n):
    rng = c.rng
    k = rng.randrange(0, 3)
    # every exception type is used at least once per run (round robin from a seed-dependent offset)
    exc = EXC_ZOO[(it + c.seed) % len(EXC_ZOO)]
    mode = rng.choice(['first', 'kth', 'every', 'short', 'zero', 'over'])
    plan = {'first': [('raise', exc)] + [('deliver', 0)] * 50,
            'kth': [('deliver', 0)] * k + [('raise', exc)] + [('deliver', 0)] * 50,
            'every': [('raise', exc)],
            'short': [('deliver', -1), ('deliver', 0)],
            'zero': [('deliver', -100), ('deliver', 0)],
            'over': [('deliver', 2), ('deliver', 0)]}[mode]
    es_mode = ['raise-once', 'raise-second', 'raise-second-third', 'raise-alternate', 'ok'][(it // len(EXC_ZOO) + it) % 5] if not remote else rng.choice(['raise-once', 'raise-second', 'raise-alternate', 'ok'])
    es_plan = {'raise-once': [('raise', exc)] + [('ok', None)] * 50,
               'raise-second': [('ok', None), ('raise', exc)] + [('ok', None)] * 50,
               'raise-second-third': [('ok', None), ('raise', exc), ('raise', exc)] + [('ok', None)] * 50,
               'raise-alternate': [('ok', None), ('raise', exc)],
               'ok': [('ok', None)]}[es_mode]
    script = {'plan': plan, 'es': es_plan,
              'suggest_calls': 0, 'es_calls': 0, 'tok': 0}
    fac = make_policy_factory(script)
    case = {'remote': remote, 'mode': mode, 'exception': exc.__name__, 'k': k, 'es_mode': es_mode}
    server = None
    if remote:
      server = vizier_server.DistributedPythiaVizierServer(database_url=None, policy_factory=fac,
                                                            early_stop_recycle_period=datetime.timedelta(seconds=0))
      sv = server._servicer  # pylint: disable=protected-access
    else:
      sv = vizier_service.VizierServicer(database_url=None if it % 2 else 'sqlite:///:memory:',
                                         early_stop_recycle_period=datetime.timedelta(seconds=0))
      sv.default_pythia_service = pythia_service.PythiaServicer(sv, policy_factory=fac)
    try:
      study = svc.create_study(sv, spec=svc.simple_study_spec('RANDOM_SEARCH'))
      sn = study.name
      calls = []
      workers = ['w1', 'w2']
      wedged = False
      total_active = 0
      for step in range(rng.randrange(3, 7)):
        w = rng.choice(workers)
        cnt = rng.choice([1, 2, 3])
        calls_before = script['suggest_calls']
        try:
          op = sv.SuggestTrials(vsp.SuggestTrialsRequest(parent=sn, suggestion_count=cnt, client_id=w))
          status = 'error-op' if op.HasField('error') else ('done' if op.done else 'PENDING')
          nt = len(vsp.SuggestTrialsResponse.FromString(op.response.value).trials) if op.HasField('response') else 0
        except (KeyboardInterrupt, SystemExit):
          raise
        except BaseException as e:  # pylint: disable=broad-except   (an error class outside Exception is still 'the algorithm raised')
          status, nt = 'EXC:' + type(e).__name__, 0
        calls.append([w, cnt, status, nt])
        # the failure must be REPORTED: a call during which the algorithm raised does not answer normally
        raised_now = any(script['plan'][k % len(script['plan'])][0] == 'raise' for k in range(calls_before, script['suggest_calls']))
        if raised_now and status == 'done':
          c.prop_fail('suggest-failure-not-reported',
                      'the suggestion algorithm raised %s during this SuggestTrials call but the call answered with a successful operation (%d trials)' % (exc.__name__, nt),
                      dict(case, calls=calls))
        c.count(1, kind='fault:' + ('remote' if remote else 'local') + ':' + status.split(':')[0])
        if status == 'PENDING':
          wedged = True
        if status.startswith('EXC'):
          # an error status is an acceptable report only if nothing is left pending (checked below)
          pass
        # complete what the worker holds so that the next suggest needs the algorithm again
        for t in sv.datastore.list_trials(sn):
          if t.state == study_pb2.Trial.State.ACTIVE and rng.random() < 0.7:
            req = vsp.CompleteTrialRequest(name=t.name)
            req.final_measurement.metrics.add(metric_id='obj', value=1.0)
            sv.CompleteTrial(req)
      pending = []
      for w in workers:
        try:
          pending += [o.name for o in sv.datastore.list_suggestion_operations(sn, w) if not o.done]
        except custom_errors.NotFoundError:
          pass
      case['calls'] = calls
      c.traces += 1
      c.count(0, ('fault', remote, mode, exc.__name__, es_mode))
      if wedged or pending:
        c.prop_fail('operation-left-pending:fault-injection',
                    'after the algorithm %s (%s), SuggestTrials left or returned an unfinished operation: %s' % (mode, exc.__name__, pending or calls),
                    dict(case, pending=pending))
        continue
      # the study must stay usable: with the plan now delivering, a fresh worker gets trials
      script['plan'] = [('deliver', 0)]
      try:
        op = sv.SuggestTrials(vsp.SuggestTrialsRequest(parent=sn, suggestion_count=2, client_id='w3'))
        ok = op.done and op.HasField('response') and len(vsp.SuggestTrialsResponse.FromString(op.response.value).trials) == 2
      except Exception as e:  # pylint: disable=broad-except
        ok = False
        case['later_exception'] = type(e).__name__
      if not ok:
        c.prop_fail('study-unusable-after-algorithm-failure', 'after the algorithm failure a later SuggestTrials by another worker does not return 2 trials', case)
        continue
      # early stopping: a failure must not wedge the trial's record
      act = [t for t in sv.datastore.list_trials(sn) if t.state == study_pb2.Trial.State.ACTIVE]
      if act:
        t = act[0]
        es_before = script['es_calls']
        outcomes = []
        n_checks = 5
        planned = []
        for _ in range(n_checks):
          calls_before = script['es_calls']
          try:
            r = sv.CheckTrialEarlyStoppingState(vsp.CheckTrialEarlyStoppingStateRequest(trial_name=t.name))
            outcomes.append('ok')
          except (KeyboardInterrupt, SystemExit):
            raise
          except BaseException as e:  # pylint: disable=broad-except
            outcomes.append('EXC:' + type(e).__name__)
          planned.append(script['es'][calls_before % len(script['es'])][0] if script['es_calls'] > calls_before else 'not-consulted')
        case['es_planned'] = planned
        # the failure must be REPORTED: a check during which the algorithm raised does not answer normally
        silent = [i for i, (pl, o) in enumerate(zip(planned, outcomes)) if pl == 'raise' and o == 'ok']
        if silent:
          c.prop_fail('earlystop-failure-not-reported',
                      'the early-stopping algorithm raised %s at check(s) %s but CheckTrialEarlyStoppingState answered normally' % (exc.__name__, silent), case)
        consulted = script['es_calls'] - es_before
        case['es_outcomes'] = outcomes
        case['es_consulted'] = consulted
        if consulted < n_checks:
          c.prop_fail('earlystop-answered-from-abandoned-record',
                      'after an early-stopping failure later checks were answered without consulting the algorithm (%d of %d calls reached it; recycle period 0)' % (consulted, n_checks), case)
        try:
          stored = sv.datastore.get_early_stopping_operation(resources.EarlyStoppingOperationResource(
              study.name.split('/')[1], study.name.split('/')[3], int(t.name.split('/')[-1])).name)
          if stored.status == vizier_oss_pb2.EarlyStoppingOperation.Status.ACTIVE:
            c.prop_fail('earlystop-record-left-active', 'the stored early-stopping record of %s is still ACTIVE (abandoned) after the checks returned' % t.name, case)
        except custom_errors.NotFoundError:
          pass
    finally:
      if server is not None:
        server._server.stop(0)  # pylint: disable=protected-access
        server._pythia_server.stop(0)  # pylint: disable=protected-access


KEY_ES_NO_DECISION = 'earlystop-no-decision-leaves-record-active'


def earlystop_no_decision_stage(c):
  """The early-stopping algorithm answers, but with NO decision for the trial that was asked about (Pythia does
  not promise one): the trial's record stays ACTIVE and, with nothing else happening in the study, every later check
  of the trial is answered from it without reaching the algorithm."""
  import datetime
  from vizier import pythia
  from vizier import pyvizier as vz
  from vizier._src.service import vizier_service, pythia_service, vizier_service_pb2 as vsp, study_pb2
  calls = {'n': 0}

  class Policy(pythia.Policy):
    def __init__(self, supporter):
      self._s = supporter

    def suggest(self, request):
      return pythia.SuggestDecision(suggestions=[vz.TrialSuggestion({'x': 0.5}) for _ in range(request.count)], metadata=vz.MetadataDelta())

    def early_stop(self, request):
      calls['n'] += 1
      ds = [] if calls['n'] == 1 else [pythia.EarlyStopDecision(id=t, reason='r', should_stop=True) for t in request.trial_ids]
      return pythia.EarlyStopDecisions(decisions=ds, metadata=vz.MetadataDelta())

    @property
    def should_be_cached(self):
      return False
  sv = vizier_service.VizierServicer(database_url=None, early_stop_recycle_period=datetime.timedelta(seconds=0))
  sv.default_pythia_service = pythia_service.PythiaServicer(sv, policy_factory=lambda p, a, s, n: Policy(s))
  study = svc.create_study(sv, owner='o', display='esnd')
  op = sv.SuggestTrials(vsp.SuggestTrialsRequest(parent=study.name, suggestion_count=1, client_id='w'))
  t = vsp.SuggestTrialsResponse.FromString(op.response.value).trials[0]
  answers = []
  for _ in range(3):
    try:
      answers.append(bool(sv.CheckTrialEarlyStoppingState(vsp.CheckTrialEarlyStoppingStateRequest(trial_name=t.name)).should_stop))
    except Exception as e:  # pylint: disable=broad-except
      answers.append('EXC:' + type(e).__name__)
  c.traces += 1
  c.count(1, ('earlystop-no-decision',), kind='fault:earlystop-no-decision')
  if calls['n'] < 3:
    c.prop_fail(KEY_ES_NO_DECISION,
                'the early-stopping algorithm returned no decision for the checked trial at the first check; the next two checks were answered %s from the ACTIVE record without reaching the algorithm (%d of 3 checks reached it; it would have said stop)' % (answers[1:], calls['n']),
                {'history': 'create study; suggest 1; 3 x CheckTrialEarlyStoppingState(trial 1), policy: [] then stop', 'answers': answers, 'algorithm_calls': calls['n']})


def malformed_spec_stage(c):
  """A stored StudySpec that the service cannot convert (CreateStudy accepts a parameter without a value spec):
  SuggestTrials cannot even build the request for the algorithm.  Whatever it answers, it must not leave its operation
  unfinished - the second call must not be answered from the first call's abandoned record."""
  from vizier._src.service import vizier_service, vizier_service_pb2 as vsp, study_pb2
  for backend, url in (('ram', None), ('sqlmem', 'sqlite:///:memory:')):
    sv = vizier_service.VizierServicer(database_url=url)
    spec = study_pb2.StudySpec(algorithm='RANDOM_SEARCH')
    spec.parameters.add(parameter_id='x')                      # no double / integer / discrete / categorical value spec
    spec.metrics.add(metric_id='obj', goal=study_pb2.StudySpec.MetricSpec.GoalType.MAXIMIZE)
    try:
      study = sv.CreateStudy(vsp.CreateStudyRequest(parent='owners/o', study=study_pb2.Study(display_name='bad', study_spec=spec)))
    except Exception:  # pylint: disable=broad-except
      c.count(1, kind='fault:malformed-spec-refused-at-create')
      continue
    answers = []
    for _ in range(3):
      try:
        op = sv.SuggestTrials(vsp.SuggestTrialsRequest(parent=study.name, suggestion_count=1, client_id='w'))
        answers.append(['op', op.name.rsplit('/', 1)[-1], bool(op.done), bool(op.HasField('error'))])
      except Exception as e:  # pylint: disable=broad-except
        answers.append(['raised', type(e).__name__])
    c.traces += 1
    c.count(1, ('malformed-spec', backend), kind='fault:malformed-spec')
    # ... and the early-stopping check of a trial of that study (a trial added by the user, handed to a worker from
    # the REQUESTED pool without any algorithm call): it cannot build its request either, and must not leave the
    # trial's early-stopping record ACTIVE
    es_answers = []
    try:
      sv2 = vizier_service.VizierServicer(database_url=url)
      study2 = sv2.CreateStudy(vsp.CreateStudyRequest(parent='owners/o', study=study_pb2.Study(display_name='bad2', study_spec=spec)))
      t = sv2.CreateTrial(vsp.CreateTrialRequest(parent=study2.name, trial=study_pb2.Trial()))
      sv2.SuggestTrials(vsp.SuggestTrialsRequest(parent=study2.name, suggestion_count=1, client_id='w'))
      for _ in range(3):
        try:
          r = sv2.CheckTrialEarlyStoppingState(vsp.CheckTrialEarlyStoppingStateRequest(trial_name=t.name))
          es_answers.append(['answer', bool(r.should_stop)])
        except Exception as e:  # pylint: disable=broad-except
          es_answers.append(['raised', type(e).__name__])
      from vizier._src.service import resources as _res
      rec = sv2.datastore.get_early_stopping_operation(_res.TrialResource.from_name(t.name).early_stopping_operation_resource.name)
      from vizier._src.service import vizier_oss_pb2
      if rec.status == vizier_oss_pb2.EarlyStoppingOperation.Status.ACTIVE:
        c.prop_fail('earlystop-record-left-active:malformed-study-spec',
                    'on a study whose stored spec cannot be converted, CheckTrialEarlyStoppingState answered %s and left the trial\'s early-stopping record ACTIVE: every later check is answered from it (backend %s)' % (es_answers, backend),
                    {'backend': backend, 'history': 'CreateStudy(spec with a parameter without value spec); CreateTrial; SuggestTrials(w); 3 x CheckTrialEarlyStoppingState', 'answers': es_answers})
    except KeyError:
      pass      # no record was created at all
    c.traces += 1
    pending = [a for a in answers if a[0] == 'op' and not a[2]]
    if pending:
      c.prop_fail('operation-left-pending:malformed-study-spec',
                  'on a study whose stored spec cannot be converted, SuggestTrials answered %s: an unfinished operation is returned again and again (backend %s)' % (answers, backend),
                  {'backend': backend, 'history': 'CreateStudy(spec with a parameter without value spec); 3 x SuggestTrials(worker w)', 'answers': answers})


def unreachable_pythia_stage(c):
  """Split deployment whose Pythia server is NOT reachable (study configured with a pythia_endpoint on an
  unused loopback port): SuggestTrials must TERMINATE with a reported failure (the stub's channel-ready
  wait is bounded), leave no unfinished operation and not keep the operation lock; a later call by another
  worker terminates too."""
  import socket
  import threading
  import time as _time
  from vizier._src.service import vizier_service, vizier_service_pb2 as vsp, study_pb2
  from vizier.service import pyvizier as vz
  sock = socket.socket()
  sock.bind(('localhost', 0))
  port = sock.getsockname()[1]
  sock.close()                       # nothing listens there now
  sv = vizier_service.VizierServicer(database_url=None)
  sc = vz.StudyConfig()
  sc.search_space.root.add_float_param('x', 0.0, 1.0)
  sc.metric_information.append(vz.MetricInformation('obj', goal=vz.ObjectiveMetricGoal.MAXIMIZE))
  sc.algorithm = 'RANDOM_SEARCH'
  sc.pythia_endpoint = 'localhost:%d' % port
  study = sv.CreateStudy(vsp.CreateStudyRequest(parent='owners/o', study=study_pb2.Study(display_name='unreach', study_spec=sc.to_proto())))
  limit = 45.0
  results = {}

  def call(w):
    t0 = _time.time()
    try:
      op = sv.SuggestTrials(vsp.SuggestTrialsRequest(parent=study.name, suggestion_count=1, client_id=w))
      results[w] = ('error-op' if op.HasField('error') else ('done' if op.done else 'PENDING'), _time.time() - t0)
    except Exception as e:  # pylint: disable=broad-except
      results[w] = ('EXC:' + type(e).__name__, _time.time() - t0)
  workers = ['w1'] if c.tier == 'quick' else ['w1', 'w2']
  for w in workers:
    th = threading.Thread(target=call, args=(w,), daemon=True)
    th.start()
    th.join(limit)
    c.traces += 1
    c.count(1, ('unreachable', w), kind='fault:unreachable-pythia')
    case = {'pythia_endpoint': sc.pythia_endpoint, 'worker': w, 'limit_s': limit, 'result': results.get(w)}
    if th.is_alive():
      c.prop_fail('suggest-hangs-on-unreachable-pythia',
                  'SuggestTrials of a study whose Pythia server is unreachable did not return within %.0f s: the failure is never reported and the study is blocked' % limit, case)
      return
    status = results[w][0]
    if status in ('done', 'PENDING'):
      c.prop_fail('suggest-failure-not-reported', 'Pythia unreachable, but SuggestTrials answered %s' % status, case)
  # the same at early-stopping time: a trial handed out from the REQUESTED pool (no Pythia needed), then a check while
  # the study's Pythia server is unreachable: the failure is reported and the trial's record is not left ACTIVE
  from vizier._src.service import vizier_oss_pb2
  t = sv.CreateTrial(vsp.CreateTrialRequest(parent=study.name, trial=study_pb2.Trial()))
  sv.SuggestTrials(vsp.SuggestTrialsRequest(parent=study.name, suggestion_count=1, client_id='wes'))
  es_result = {}

  def es_call():
    try:
      sv.CheckTrialEarlyStoppingState(vsp.CheckTrialEarlyStoppingStateRequest(trial_name=t.name))
      es_result['r'] = 'answered'
    except Exception as e:  # pylint: disable=broad-except
      es_result['r'] = 'EXC:' + type(e).__name__
  th = threading.Thread(target=es_call, daemon=True)
  th.start()
  th.join(limit)
  c.traces += 1
  c.count(1, ('unreachable', 'earlystop'), kind='fault:unreachable-pythia:earlystop')
  es_case = {'pythia_endpoint': sc.pythia_endpoint, 'trial': t.name, 'result': es_result.get('r')}
  if th.is_alive():
    c.prop_fail('earlystop-hangs-on-unreachable-pythia', 'CheckTrialEarlyStoppingState of a study whose Pythia server is unreachable did not return within %.0f s' % limit, es_case)
    return
  if es_result.get('r') == 'answered':
    c.prop_fail('earlystop-failure-not-reported', 'Pythia unreachable, but CheckTrialEarlyStoppingState answered normally', es_case)
  try:
    from vizier._src.service import resources
    tr = resources.TrialResource.from_name(t.name)
    esop = sv.datastore.get_early_stopping_operation(tr.early_stopping_operation_resource.name)
    if esop.status == vizier_oss_pb2.EarlyStoppingOperation.Status.ACTIVE:
      c.prop_fail('earlystop-record-left-active:unreachable-pythia',
                  'after the unreachable-Pythia failure the trial\'s early-stopping record is still ACTIVE: every later check of the trial is answered from it without reaching the algorithm', es_case)
  except KeyError:
    pass
  pending = []
  for w in workers:
    try:
      pending += [o.name for o in sv.datastore.list_suggestion_operations(study.name, w) if not o.done]
    except Exception:  # pylint: disable=broad-except
      pass
  lock = sv._operation_lock[study.name]  # pylint: disable=protected-access
  free = lock.acquire(blocking=False)
  if free:
    lock.release()
  if pending or not free:
    c.prop_fail('operation-left-pending:unreachable-pythia', 'after the reported failure an operation is unfinished (%s) or the operation lock is still held (%s)' % (pending, not free),
                {'pythia_endpoint': sc.pythia_endpoint, 'pending': pending, 'lock_free': free})


def client_stage(c):
  """VizierClient.get_suggestions terminates (bounded polls) when the algorithm fails."""
  import time as _time
  from vizier._src.service import vizier_client, vizier_service, pythia_service
  from vizier.service import pyvizier as vz
  n = 10 if c.tier == 'quick' else 80
  for it in range(n):
    exc = c.rng.choice(EXC_ZOO)
    script = {'plan': [('raise', exc), ('deliver', 0)], 'es': [('ok', None)], 'suggest_calls': 0, 'es_calls': 0, 'tok': 0}
    sv = vizier_service.VizierServicer(database_url=None)
    sv.default_pythia_service = pythia_service.PythiaServicer(sv, policy_factory=make_policy_factory(script))
    svc.create_study(sv, owner='o', display='s')
    client = vizier_client.VizierClient('owners/o/studies/s', 'w1', sv)
    polls = {'n': 0}
    orig_get = sv.GetOperation

    class Hang(Exception):
      pass

    def counting_get(req, context=None):
      polls['n'] += 1
      if polls['n'] > 5:
        raise Hang()
      return orig_get(req, context)
    sv.GetOperation = counting_get
    orig_sleep = _time.sleep
    vizier_client.time.sleep = lambda s: None
    outcomes = []
    try:
      for _ in range(2):
        try:
          ts = client.get_suggestions(1)
          outcomes.append('trials:%d' % len(ts))
        except Hang:
          outcomes.append('HANG')
        except Exception as e:  # pylint: disable=broad-except
          outcomes.append('EXC:' + type(e).__name__)
    finally:
      vizier_client.time.sleep = orig_sleep
    c.traces += 1
    c.count(1, ('client', exc.__name__, it % 3), kind='client-poll:' + outcomes[0].split(':')[0])
    if 'HANG' in outcomes:
      c.prop_fail('client-polls-forever', 'VizierClient.get_suggestions polled an unfinished operation more than 5 times after the algorithm raised %s' % exc.__name__,
                  {'exception': exc.__name__, 'outcomes': outcomes})
    elif not outcomes[1].startswith('trials:1'):
      c.prop_fail('study-unusable-after-algorithm-failure', 'the call after the failure did not return a suggestion: %s' % outcomes, {'exception': exc.__name__, 'outcomes': outcomes})


def run(c):
  # translator: which RPCs every client-library method issues (one writing RPC per single-resource call)
  from vcheck import clientshapecheck
  from vcheck import pythiashapecheck
  clientshapecheck.translate(c)
  pythiashapecheck.translate(c)
  c.proof_stage()
  clientshapecheck.stage(c)
  pythiashapecheck.stage(c)
  backends = ['ram', 'sqlmem']
  cfgs = svccheck.identify_flags(c, backends, report=('suggestCatchesAll', 'shortDeliveryOk', 'esFailureFinishesOp', 'esAnswerFinishesOp', 'resumesAbandonedOp', 'esResumesActive'))
  n = 80 if c.tier == 'quick' else 1000
  svccheck.differential(c, 'C06', n, backends, cfgs, weights=WEIGHTS, fail_rate=0.45, clients=('w1', 'w2', 'w3'))
  fault_stage(c, remote=False)
  fault_stage(c, remote=True)
  unreachable_pythia_stage(c)
  earlystop_no_decision_stage(c)
  malformed_spec_stage(c)
  client_stage(c)
  # the client library's reporting of failures (operation.error -> RuntimeError, bounded polling): Model/Client.lean
  from vcheck import clientcheck
  clientcheck.stage(c, 'C06')
  svc.cleanup()
  return c.finish(
      level='proof',
      rule='(a) stateful histories with 45%% algorithm failures (scripted Pythia: RpcError / other exception / 0..n+3 suggestions; early-stop raises) judged by the Lean predicates; (b) fault injection through the real PythiaServicer (in-process and real gRPC Pythia server) with exception types %s failing at first/k-th/every call or delivering too few/none/too many; distinct non-trivial = distinct (deployment, mode, exception type, early-stop mode); (c) client polling loop bounded at 5 polls' % [e.__name__ for e in EXC_ZOO],
      assumptions=['early-stop recycle period 0 in fault injection (a finished record is always recomputed)',
                   'gRPC transport: an exception in the remote Pythia reaches SuggestTrials as grpc.RpcError'])
