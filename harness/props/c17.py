"""C17 — clients receive parameter values in the declared external types.

Proof stage: Props/C17.lean.  Tie: ParameterValue.cast, add_discrete_param auto_cast,
parse_multi_dimensional_parameter_name, StudyConfig.trial_parameters /
_pytrial_parameters and clients.Trial.parameters on a real local service (RAM and
SQLite) against the Lean model (Model/Present.lean) on generated spaces (bool, discrete
with and without auto_cast, indexed names, conditional children with single and multiple
parent values, same child name under two parent values) and trials (valid, with unknown /
inactive / orphan parameters).  Property stage: every REAL presentation is judged by
the Lean specification predicate `judge` (Model/PresentSpec.lean) through the driver."""
import json
import re

from vcheck import core
from props import spacelib as sl

KEY_BOOL_WIRE = 'bool-given-for-categorical-parameter-stored-as-number'
KEY_BASE_CLASH = 'plain-parameter-named-like-indexed-base-is-overwritten'
KEY_GRANDCHILD = 'grandchildren-dropped-by-study-spec-proto'
KEY_TWIN = 'inactive-child-of-same-named-config-accepted'
CFG = {}


def _try(f):
  try:
    return ('ok', f())
  except Exception as e:  # pylint: disable=broad-except
    return ('err', sl.exc_class(e))


def wire_py(v):
  """what ParameterValueConverter.to_proto/from_proto do to a value (reference, from the property text:
  every number arrives as a double)"""
  if isinstance(v, str):
    return v
  return float(v)


def enc_out(d):
  """real {name: value | list} -> driver `out` json"""
  out = []
  for k, v in d.items():
    if isinstance(v, (list, tuple)):
      out.append([k, {'many': [sl.enc_opt(x) for x in v]}])
    else:
      out.append([k, {'one': sl.enc_opt(v)}])
  return out


def canon_out(j):
  """driver out json -> comparable dict name -> tagged value(s) (dict order is not part of the contract)"""
  d = {}
  for k, p in j:
    if 'many' in p:
      d[k] = ['many', [None if x is None else sl.tag(sl.dec(x)) for x in p['many']]]
    else:
      d[k] = ['one', None if p['one'] is None else sl.tag(sl.dec(p['one']))]
  return d


def canon_real(d):
  return canon_out(enc_out(d))


# ------------------------------------------------------------------ generators
def gen_space(rng, depth, flat=False):
  """nodes of a space for C17 (valid definitions, wire-safe), names unique except that a
  child name may be reused under another value of the same parent"""
  names = sl.name_stream(rng)
  nodes = []
  for _ in range(rng.randrange(1, 4)):
    kind = rng.choice(['bool', 'discrete', 'discrete', 'categorical', 'int', 'float', 'factory'])
    n = sl.gen_tree(rng, names, 1 if flat else depth, kind=kind, p_child=0.8, wire_safe=True)
    nodes.append(n)
  # indexed family
  if rng.random() < 0.5:
    base = rng.choice(['m', 'rate', 'w'])
    k = rng.choice(['int', 'float', 'discrete', 'bool', 'categorical'])
    idxs = rng.sample([0, 1, 2, 3, 10, 11], rng.randrange(1, 4))
    for i in idxs:
      leaf = sl.gen_leaf(rng, base, kind=k, wire_safe=True)
      leaf['index'] = i
      nodes.append(leaf)
  # same child name under another parent value
  if not flat and rng.random() < 0.5:
    for n in nodes:
      ch = n.get('children')
      if ch:
        pts = sl.feasible_points(n, rng, 4)
        used = set(map(repr, [v for vals, _ in ch for v in vals]))
        free = [p for p in pts if repr(p) not in used and repr(float(p) if isinstance(p, int) else p) not in used]
        if free:
          twin = sl.gen_leaf(rng, sl.created_name(ch[0][1]), wire_safe=True)
          twin.pop('index', None)
          twin['name'] = sl.created_name(ch[0][1])
          ch.append(([free[0]], twin))
        break
  for n in nodes:
    _no_numeral_categories(n)
  return nodes


def _no_numeral_categories(n):
  """as_float/as_int parse numeral strings ('3', '3.0'); the model does not (assumption): a categorical
  config that factory() was given a numeric external type must not have numeral categories"""
  if n['call'] == 'factory' and n.get('ext') in ('INTEGER', 'FLOAT') and n.get('feasible') and isinstance(n['feasible'][0], str):
    ren = {'3': 'n3', '3.0': 'n3.0'}
    n['feasible'] = [ren.get(x, x) for x in n['feasible']]
    if n.get('default') in ren:
      n['default'] = ren[n['default']]
    n['children'] = [([ren.get(v, v) for v in vals], ch) for vals, ch in n.get('children', [])]
  for _, ch in n.get('children', []):
    _no_numeral_categories(ch)


def stored_matches(key, value):
  """Python `value in [key]` on the stored (wired) value"""
  return wire_py(value) == key


def sample_trial(rng, dumped, bool_as_python=False):
  """An assignment along an active path of the dumped tree (values as a user writes them)."""
  a = {}

  def visit(d):
    v = sl.inside_value(rng, d)
    if d['type'] == 'CATEGORICAL' and isinstance(v, bool) and not bool_as_python:
      v = 'True' if v else 'False'
    if d['name'] in a:
      return
    a[d['name']] = v
    for k, child in d['kids']:
      if stored_matches(sl.dec(k), v):
        visit(child)
  for d in dumped:
    visit(d)
  return a


def mutate_trial(rng, dumped, a):
  allp = sl.all_pcs(dumped)
  kind = rng.choice(['valid', 'valid', 'unknown', 'inactive', 'orphan', 'partial'])
  a = dict(a)
  if kind == 'unknown':
    a['nope_' + rng.choice(sl.NAMES)] = rng.choice([1, 0.5, 'a'])
  elif kind == 'inactive':
    cand = [d for d in allp if d['name'] not in a]
    if not cand:
      return a, 'valid'
    d = rng.choice(cand)
    a[d['name']] = sl.inside_value(rng, d)
    if isinstance(a[d['name']], bool):
      a[d['name']] = 'True' if a[d['name']] else 'False'
  elif kind == 'orphan':
    parents = [d for d in allp if d['kids'] and d['name'] in a]
    if not parents:
      return a, 'valid'
    a.pop(rng.choice(parents)['name'])
  elif kind == 'partial':
    leaves = [d for d in allp if not d['kids'] and d['name'] in a]
    if len(leaves) < 2:
      return a, 'valid'
    a.pop(rng.choice(leaves)['name'])
  return a, kind


# ------------------------------------------------------------------ small pure pieces
def cast_stage(c):
  from vizier._src.pyvizier.shared import trial as tr
  vals = [True, False, 0, 1, 2, -1, 3, 0.0, 1.0, -0.0, 2.0, 2.5, -2.5, 1e-3, 1e15, sl.NAN, sl.INF, -sl.INF,
          'True', 'False', 'true', 'abc', '', 'é']
  exts = ['INTERNAL', 'BOOLEAN', 'INTEGER', 'FLOAT']
  reqs, meta = [], []
  for v in vals:
    for e in exts:
      real = _try(lambda: tr.ParameterValue(v).cast(getattr(tr.ExternalType, e)))
      reqs.append({'op': 'cast', 'v': sl.enc(v), 'ext': e})
      meta.append((v, e, real))
      c.traces += 1
  for (v, e, real), m in zip(meta, c.lean('C17', reqs)):
    c.count(1, ('cast', repr(v), e), kind='cast:' + e)
    case = {'value': sl.tag(v), 'ext': e}
    if real[0] == 'ok':
      want = None if real[1] is None else sl.tag(real[1])
      got = None if m.get('ok') is None else sl.tag(sl.dec(m['ok']))
      if 'ok' not in m or want != got:
        c.tie_break('ParameterValue.cast', case, want, m)
      # property: declared type
      r = real[1]
      if r is not None:
        okt = {'BOOLEAN': bool, 'INTEGER': int, 'FLOAT': float}.get(e)
        if okt is not None and (type(r) is not okt):
          c.prop_fail('cast-wrong-type:' + e, 'cast(%s) of %r gave %r' % (e, v, r), case)
    else:
      if 'err' not in m or not sl.err_matches(real[1], m['err']):
        c.tie_break('ParameterValue.cast error', case, real[1], m)


def autocast_stage(c):
  from vizier._src.pyvizier.shared import parameter_config as pcm
  n = 300 if c.tier == 'quick' else 3000
  reqs, meta = [], []
  for _ in range(n):
    pool = c.rng.choice([sl.INTS, sl.FLOATS[:8], sl.INTS + sl.FLOATS[:8], [0, 1, 2, 3.0, 4.0], [1.0, 2.0, 1e15], [True, 2.0]])
    fv = []
    for v in c.rng.sample(pool, min(len(pool), c.rng.randrange(1, 5))):
      if not any(v == w for w in fv):
        fv.append(v)
    ac = c.rng.random() < 0.7
    def real_f():
      ss = pcm.SearchSpace()
      return list(ss.root.add_discrete_param('x', fv, auto_cast=ac))[0].external_type.name
    real = _try(real_f)
    reqs.append({'op': 'autocast', 'feasible': [sl.enc(x) for x in fv], 'auto_cast': ac})
    meta.append((fv, ac, real))
    c.traces += 1
  for (fv, ac, real), m in zip(meta, c.lean('C17', reqs)):
    integral = m['allIntegral']
    c.count(1, ('autocast', repr(fv), ac), kind='autocast:%s:%s' % ('on' if ac else 'off', 'integral' if integral else 'fractional'))
    case = {'feasible': sl.tag(fv), 'auto_cast': ac}
    if real[0] != 'ok' or m['model'].get('ok') != real[1]:
      c.tie_break('add_discrete_param auto_cast', case, list(real), m['model'])
    if real[0] == 'ok':
      want = 'INTEGER' if (ac and integral) else 'FLOAT'
      if real[1] != want:
        c.prop_fail('autocast-wrong', 'add_discrete_param(%r, auto_cast=%s) declared %s, expected %s' % (fv, ac, real[1], want), case)


def parse_stage(c):
  from vizier._src.pyvizier.shared import parameter_config as pcm
  alphabet = ['a', 'b', '[', ']', '(', ')', '0', '1', '9', '_', ' ', 'é']
  names = ['m[0]', 'm[10]', 'm[01]', 'm[]', 'm[0', 'm0]', '[3]', 'q[0][1]', 'w(a)[0]', 'w[0](a)', 'a[1]b', 'a[-1]', 'a[1.0]', '', ']', '[]', 'a[b][2]', 'x[12345678901234567890]']
  n = 1500 if c.tier == 'quick' else 20000
  for _ in range(n):
    names.append(''.join(c.rng.choice(alphabet) for _ in range(c.rng.randrange(0, 8))))
  names = sorted(set(names))
  model = c.lean('C17', [{'op': 'parse', 'name': x} for x in names])
  for x, m in zip(names, model):
    real = pcm.SearchSpaceSelector.parse_multi_dimensional_parameter_name(x)
    c.traces += 1
    c.count(1, ('parse', x) if ('[' in x and ']' in x) else None, kind='parse-name')
    got = None if m['parsed'] is None else (m['parsed'][0], m['parsed'][1])
    if real != got:
      c.tie_break('parse_multi_dimensional_parameter_name', {'name': x}, real, m['parsed'])
    # property: name[i] made by the builders parses back to (name, i) when the base has no parentheses
  for base in ['m', 'rate', 'a b', 'q[0]', 'é', '']:
    for i in [0, 1, 9, 10, 123]:
      made = pcm.SearchSpaceSelector._multi_dimensional_parameter_name(base, i)   # pylint: disable=protected-access
      back = pcm.SearchSpaceSelector.parse_multi_dimensional_parameter_name(made)
      c.count(1, ('parse-roundtrip', base, i), kind='index-name-roundtrip')
      if back != (base, i):
        c.prop_fail('indexed-name-roundtrip', 'name %r index %d -> %r -> %r' % (base, i, made, back), {'base': base, 'index': i})


# ------------------------------------------------------------------ trial_parameters
def judge_case(c, where, dumped, a, real, m_judge, extra):
  """Property stage for one presentation. real = ('ok', dict) | ('err', cls)."""
  case = dict(extra, space=dumped, trial={k: sl.tag(v) for k, v in a.items()})
  bool_for_cat = any(isinstance(a.get(d['name']), bool) and d['type'] == 'CATEGORICAL' for d in sl.all_pcs(dumped))
  if not m_judge['uniq']:
    return      # two simultaneously active parameters share a name: a trial (a dict) cannot carry both; outside the property
  if not m_judge['extOK']:
    return      # factory() accepts an external type that makes no sense for the parameter (BOOLEAN on a float, ...): tie only
  if real[0] == 'ok':
    why = m_judge['why']
    if why is not None:
      if why == 'plain-name-equals-indexed-base-name':
        key = KEY_BASE_CLASH
      elif why.startswith('unknown-or-inactive') and not m_judge['treeNamesUnique']:
        key = KEY_TWIN
      elif bool_for_cat:
        key = KEY_BOOL_WIRE
      else:
        key = 'presentation-wrong:' + why.split(':')[0]
      c.prop_fail(key, '%s: presented %r, judged "%s" (active: %s)' % (where, real[1], why, m_judge.get('active')), dict(case, real=canon_real(real[1])))
  else:
    if m_judge['known']:
      # every parameter of the trial is an active parameter of the space, yet an error
      key = KEY_BOOL_WIRE if bool_for_cat else 'valid-trial-refused:' + real[1]
      c.prop_fail(key, '%s raised %s for a trial whose parameters are all active in the space' % (where, real[1]), case)
    elif real[1] not in ('ValueError', 'OverflowError'):
      c.prop_fail('unknown-parameter-wrong-error:' + real[1], '%s raised %s, not ValueError' % (where, real[1]), case)


def foreign_spec_stage(c):
  """Study specs NOT written by this library (a hand-written / other-language StudySpec message): the declared
  external type is read off the wire enum (AS_INTEGER, AS_FLOAT, AS_BOOLEAN), so a table that is wrong in BOTH
  directions - invisible to anything that converts its own output back - shows here."""
  from vizier._src.service import study_pb2
  from vizier.service import pyvizier as svz
  PS = study_pb2.StudySpec.ParameterSpec
  n = 40 if c.tier == 'quick' else 400
  for i in range(n):
    spec = study_pb2.StudySpec(algorithm='RANDOM_SEARCH')
    spec.metrics.add(metric_id='obj', goal=study_pb2.StudySpec.MetricSpec.GoalType.MAXIMIZE)
    want, params = {}, []
    for j in range(c.rng.randrange(1, 5)):
      name = 'q%d' % j
      kind = c.rng.choice(['int', 'float', 'bool', 'plain'])
      if kind in ('int', 'float', 'plain'):
        vals = sorted(c.rng.sample([1.0, 2.0, 4.0, 8.0, 16.0, 32.0], c.rng.randrange(1, 4)))
        ps = spec.parameters.add(parameter_id=name)
        ps.discrete_value_spec.values.extend(vals)
        ps.external_type = {'int': PS.ExternalType.AS_INTEGER, 'float': PS.ExternalType.AS_FLOAT, 'plain': PS.ExternalType.AS_INTERNAL}[kind]
        v = c.rng.choice(vals)
        want[name] = int(v) if kind == 'int' else float(v)
        params.append((name, v))
      else:
        ps = spec.parameters.add(parameter_id=name)
        ps.categorical_value_spec.values.extend(['False', 'True'])
        ps.external_type = PS.ExternalType.AS_BOOLEAN
        b = c.rng.choice(['False', 'True'])
        want[name] = (b == 'True')
        params.append((name, b))
    t = study_pb2.Trial(id='1')
    for name, v in params:
      p_ = t.parameters.add(parameter_id=name)
      if isinstance(v, str):
        p_.value.string_value = v
      else:
        p_.value.number_value = v
    real = _try(lambda: svz.StudyConfig.from_proto(spec).trial_parameters(t))
    c.traces += 1
    c.count(1, ('foreign-spec', i), kind='foreign-spec')
    case = {'parameters': [[ps.parameter_id, PS.ExternalType.Name(ps.external_type)] for ps in spec.parameters], 'trial': params}
    if real[0] != 'ok':
      c.prop_fail('foreign-spec-valid-trial-refused', 'trial_parameters raised %s for a valid trial of a hand-written StudySpec' % real[1], case)
      continue
    got = {k: (type(v).__name__, v) for k, v in real[1].items()}
    exp = {k: (type(v).__name__, v) for k, v in want.items()}
    if got != exp:
      c.prop_fail('foreign-spec-declared-type', 'a hand-written StudySpec declaring %s presents the trial %s as %s, expected %s' % (
          case['parameters'], params, sorted(got.items()), sorted(exp.items())), dict(case, presented=sorted(map(str, got.items()))))


def study_config_of(ss):
  from vizier import pyvizier as vz
  from vizier.service import pyvizier as svz
  sc = svz.StudyConfig(search_space=ss, algorithm='RANDOM_SEARCH')
  sc.metric_information.append(vz.MetricInformation(name='obj', goal=vz.ObjectiveMetricGoal.MAXIMIZE))
  return sc


def presentation_stage(c):
  from vizier import pyvizier as vz
  from vizier._src.pyvizier.oss import proto_converters as pcv
  n_spaces = 300 if c.tier == 'quick' else 2500
  per = 8 if c.tier == 'quick' else 12
  reqs_w, reqs_raw, reqs_j, meta = [], [], [], []
  for si in range(n_spaces):
    nodes = gen_space(c.rng, c.rng.choice([1, 2, 3, 3]))
    clash = c.rng.random() < 0.04
    if clash:
      nodes.append({'call': 'float', 'name': 'm', 'lo': 0.0, 'hi': 1.0})
      nodes.append({'call': 'int', 'name': 'm', 'lo': 0, 'hi': 3, 'index': 0})
    try:
      ss = sl.build_space(nodes)
    except Exception:  # pylint: disable=broad-except
      continue
    dumped = sl.dump_space(ss)
    sc = study_config_of(ss)
    for _ in range(per):
      a, kind = mutate_trial(c.rng, dumped, sample_trial(c.rng, dumped, bool_as_python=c.rng.random() < 0.1))
      tr = vz.Trial(parameters=a)
      proto = pcv.TrialConverter.to_proto(tr)
      real_w = _try(lambda: sc.trial_parameters(proto))
      real_raw = _try(lambda: sc._pytrial_parameters(tr))   # pylint: disable=protected-access
      c.traces += 2
      stored = {k: wire_py(v) for k, v in a.items()}
      # the wire itself (tie): what from_proto reads back
      back = pcv.TrialConverter.from_proto(proto).parameters.as_dict()
      if {k: sl.tag(v) for k, v in back.items()} != {k: sl.tag(v) for k, v in stored.items()}:
        c.tie_break('wire (ParameterValueConverter)', {'trial': {k: sl.tag(v) for k, v in a.items()}},
                    {k: sl.tag(v) for k, v in back.items()}, {k: sl.tag(v) for k, v in stored.items()})
      reqs_w.append(dict(CFG, op='present', wire=True, pcs=dumped, trial=sl.assign_json(a)))
      reqs_raw.append(dict(CFG, op='present', wire=False, pcs=dumped, trial=sl.assign_json(a)))
      reqs_j.append({'op': 'judge', 'pcs': dumped, 'stored': sl.assign_json(stored),
                     'out': enc_out(real_w[1]) if real_w[0] == 'ok' else None})
      meta.append((dumped, a, kind, real_w, real_raw))
  mw = c.lean('C17', reqs_w)
  mr = c.lean('C17', reqs_raw)
  mj = c.lean('C17', reqs_j)
  for (dumped, a, kind, real_w, real_raw), m1, m2, j in zip(meta, mw, mr, mj):
    for m in (m1, m2, j):
      if 'error' in m:
        raise core.InfraError('driver: %s' % m)
    depth = sl.depth_of(dumped)
    case = {'space': dumped, 'trial': {k: sl.tag(v) for k, v in a.items()}, 'kind': kind}
    c.count(2, ('present', json.dumps(case, sort_keys=True, default=str)) if (depth >= 2 or kind != 'valid') else None,
            kind='trial:%s:depth%d' % (kind, depth))
    for where, real, m in (('trial_parameters', real_w, m1), ('_pytrial_parameters', real_raw, m2)):
      if real[0] == 'ok':
        if 'ok' not in m or canon_out(m['ok']) != canon_real(real[1]):
          c.tie_break('StudyConfig.' + where, case, canon_real(real[1]), m)
      else:
        if 'err' not in m or not sl.err_matches(real[1], m['err']):
          c.tie_break('StudyConfig.%s error class' % where, case, real[1], m)
    judge_case(c, 'StudyConfig.trial_parameters', dumped, a, real_w, j, {'kind': kind})
  if meta:
    k = min(5, len(meta) - 1)
    c.sample({'presentation': {'trial': {x: sl.tag(v) for x, v in meta[k][1].items()}, 'kind': meta[k][2],
                               'real': canon_real(meta[k][3][1]) if meta[k][3][0] == 'ok' else meta[k][3][1], 'model': mw[k]}})


# ------------------------------------------------------------------ clients on a real local service
def client_stage(c):
  from vcheck import svc
  from vizier import pyvizier as vz
  from vizier._src.service import clients, vizier_client
  n_spaces = 8 if c.tier == 'quick' else 40
  per = 6 if c.tier == 'quick' else 10
  backends = [('ram', {'database_url': None}), ('sql', {'database_url': 'sqlite:///:memory:'})]
  reqs_m, reqs_j, meta = [], [], []
  saved = dict(vizier_client.environment_variables.servicer_kwargs)
  try:
    for bname, kw in backends:
      vizier_client.environment_variables.servicer_kwargs = dict(kw)
      vizier_client._create_local_vizier_servicer.cache_clear()   # pylint: disable=protected-access
      prev_shared = None        # the handle of the previous study that had the shared name (another worker's view)
      for si in range(n_spaces):
        nodes = gen_space(c.rng, c.rng.choice([1, 2, 3]))
        try:
          ss = sl.build_space(nodes)
        except Exception:  # pylint: disable=broad-except
          continue
        dumped = sl.dump_space(ss)
        # every other space re-uses ONE study name: the study is deleted after its trials were read and created
        # again with the next search space (anything remembered per study name - a cached configuration - is stale then)
        shared = si % 2 == 0
        sid = 'c17_%s_%d_%s' % (bname, c.seed, 'shared' if shared else str(si))
        # ANOTHER OWNER's study with the same study id, created first, with trials 1..3 of its own (other parameters):
        # what one owner reads must never come from the other owner's rows
        def decoy():
          dss = sl.build_space([])
          dss.root.add_float_param('decoy', 0.0, 1.0)
          d = clients.Study.from_study_config(study_config_of(dss), owner='another-owner', study_id=sid)
          if not list(d.trials()):
            for k in range(3):
              d.request(vz.TrialSuggestion(parameters={'decoy': 0.25 * (k + 1)}))
        dres = _try(decoy)
        if dres[0] != 'ok':
          raise core.InfraError('cannot create the decoy study: %s' % (dres[1],))
        made = _try(lambda: clients.Study.from_study_config(study_config_of(ss), owner='o', study_id=sid))
        if made[0] != 'ok':
          # building the space succeeded locally (sl.build_space), so the service must accept it or say why
          c.prop_fail('valid-study-config-rejected', 'a study over a valid search space cannot be created through the client (%s): %s' % (bname, str(made[1])[:200]),
                      {'backend': bname, 'space': dumped, 'error': str(made[1])[:400]})
          continue
        study = made[1]
        got = _try(lambda: study.materialize_study_config().search_space)
        if got[0] != 'ok':
          c.prop_fail('stored-study-config-unreadable', 'the client cannot read back the study configuration it stored (%s): %s' % (bname, str(got[1])[:200]),
                      {'backend': bname, 'space': dumped, 'error': str(got[1])[:400]})
          continue
        server_space = sl.dump_space(got[1])
        space_changed = _strip_defaults(server_space) != _strip_defaults(dumped)
        handles = []
        for _ in range(per):
          a, kind = mutate_trial(c.rng, dumped, sample_trial(c.rng, dumped, bool_as_python=c.rng.random() < 0.1))
          h = _try(lambda: study.request(vz.TrialSuggestion(parameters=a)))
          if h[0] == 'ok':
            handles.append((h[1], a, kind))
        # suggested trials (the algorithm chooses the values)
        sug = _try(lambda: study.suggest(count=2, client_id='w'))
        if sug[0] == 'ok':
          mine = set(h.id for h, _, _ in handles)
          for t in sug[1]:
            if t.id not in mine:      # suggest() first hands out the REQUESTED trials created above
              handles.append((t, None, 'suggested'))
        for t, a, kind in handles:
          stored_trial = t.materialize().parameters.as_dict()
          if a is None:
            a = dict(stored_trial)
          real = _try(lambda: dict(t.parameters))
          c.traces += 1
          if shared and prev_shared is not None:
            # the same trial through a handle that was opened (and used) before the study was deleted and created
            # again under its name by someone else: it must present what the study declares NOW
            old = _try(lambda: dict(prev_shared.get_trial(t.id).parameters))
            same = (old[0] == real[0]) and (canon_real(old[1]) == canon_real(real[1]) if real[0] == 'ok' else type(old[1]) is type(real[1]))
            if not same:
              c.prop_fail('stale-handle-presents-differently',
                          'a study handle opened before the study was re-created under the same name presents trial %s as %s, a fresh handle as %s (%s)' % (
                              t.id, str(old[1])[:160], str(real[1])[:160], bname),
                          {'backend': bname, 'space': dumped, 'trial': {k: sl.tag(v) for k, v in a.items()}, 'kind': kind})
          reqs_m.append(dict(CFG, op='present', wire=True, pcs=server_space, trial=sl.assign_json(a)))
          reqs_j.append({'op': 'judge', 'pcs': dumped, 'stored': sl.assign_json({k: wire_py(v) for k, v in a.items()}),
                         'out': enc_out(real[1]) if real[0] == 'ok' else None})
          stored_ok = {k: sl.tag(v) for k, v in stored_trial.items()} == {k: sl.tag(wire_py(v)) for k, v in a.items()}
          meta.append((bname, dumped, a, kind, real, space_changed, stored_ok))
        # what a reader gets is a VALUE: editing the materialised configuration (deriving the next study from this one:
        # drop a parameter, add another) must not change how the study's own trials are presented afterwards
        first_reads = [(t, _try(lambda: dict(t.parameters))) for t, _, _ in handles[:4]]
        cfg2 = _try(study.materialize_study_config)
        if cfg2[0] == 'ok' and first_reads:
          edited = False
          try:
            names = [pc.name for pc in cfg2[1].search_space.parameters]
            if names:
              cfg2[1].search_space.pop(names[0])
            cfg2[1].search_space.root.add_float_param('c17_added', 0.0, 1.0)
            edited = True
          except Exception:  # pylint: disable=broad-except
            pass
          if edited:
            for t, before in first_reads:
              after = _try(lambda: dict(t.parameters))
              c.traces += 1
              same = (after[0] == before[0]) and (canon_real(after[1]) == canon_real(before[1]) if before[0] == 'ok' else type(after[1]) is type(before[1]))
              if not same:
                c.prop_fail('presentation-changes-after-caller-edits-returned-config',
                            'after the caller edited the search space of a MATERIALISED copy of the study configuration, trial %s is presented as %s (before: %s) (%s)' % (
                                t.id, str(after[1])[:160], str(before[1])[:160], bname),
                            {'backend': bname, 'space': dumped, 'trial_id': t.id})
                break
        if shared:
          # deleted by ANOTHER handle (another worker / an operator): `study` itself never learns of it
          gone = _try(lambda: clients.Study.from_resource_name(study.resource_name).delete())
          if gone[0] != 'ok':
            raise core.InfraError('cannot delete study %s: %s' % (sid, gone[1]))
          prev_shared = study
  finally:
    # never leave the default (a SQLite FILE inside the repo tree, constants.SQL_LOCAL_URL) behind
    vizier_client.environment_variables.servicer_kwargs = dict(saved, database_url=saved.get('database_url'))
    vizier_client._create_local_vizier_servicer.cache_clear()     # pylint: disable=protected-access
  mm = c.lean('C17', reqs_m)
  mj = c.lean('C17', reqs_j)
  for (bname, dumped, a, kind, real, space_changed, stored_ok), m, j in zip(meta, mm, mj):
    case = {'backend': bname, 'space': dumped, 'trial': {k: sl.tag(v) for k, v in a.items()}, 'kind': kind}
    c.count(1, ('client', json.dumps(case, sort_keys=True, default=str)), kind='client:%s:%s' % (bname, kind))
    if not stored_ok:
      c.prop_fail('stored-parameters-differ', 'the trial stored by the service does not carry the submitted values', case)
    if real[0] == 'ok':
      if 'ok' not in m or canon_out(m['ok']) != canon_real(real[1]):
        c.tie_break('clients.Trial.parameters', case, canon_real(real[1]), m)
    else:
      if 'err' not in m or not sl.err_matches(real[1], m['err']):
        c.tie_break('clients.Trial.parameters error class', case, real[1], m)
    if space_changed:
      # the study the service holds is not the one defined (conditional grandchildren lost on the way): the
      # presentation is judged against the defined space, deviations belong to that finding
      ok = (real[0] == 'ok' and j['why'] is None) or (real[0] == 'err' and not j['known'])
      if j['uniq'] and not ok:
        c.prop_fail(KEY_GRANDCHILD, 'clients.Trial.parameters on a study whose conditional space lost its grandchildren in the StudySpec proto: %s' % (real,), case)
      continue
    judge_case(c, 'clients.Trial.parameters[%s]' % bname, dumped, a, real, j, {'backend': bname, 'kind': kind})
  svc.cleanup()


def _strip_defaults(dumped):
  """the StudySpec proto drops falsy defaults and turns DISCRETE values into doubles (C09's subject, not ours)"""
  out = []
  for d in dumped:
    e = dict(d, default=None)
    if d['type'] == 'DISCRETE':
      e['feasible'] = [sl.enc(float(sl.dec(x))) for x in d['feasible']]
      e['bounds'] = [sl.enc(float(sl.dec(x))) for x in d['bounds']] if d['bounds'] else None
    e['kids'] = [[sl.enc(float(sl.dec(k))) if d['type'] == 'DISCRETE' else k, _strip_defaults([ch])[0]] for k, ch in d['kids']]
    out.append(e)
  return out


def witnesses(c):
  """Replay the witnesses of the known findings on the real code (variant identification)."""
  from vizier import pyvizier as vz
  from vizier._src.pyvizier.oss import proto_converters as pcv
  from vizier._src.pyvizier.shared import parameter_config as pcm
  # (1) bool for a categorical parameter
  ss = pcm.SearchSpace()
  ss.root.add_categorical_param('c', ['True', 'False', 'a'])
  sc = study_config_of(ss)
  r = _try(lambda: sc.trial_parameters(pcv.TrialConverter.to_proto(vz.Trial(parameters={'c': True}))))
  c.flags['boolForCategoricalTravelsAsNumber'] = (r == ('ok', {'c': 1.0}) and type(r[1]['c']) is float)
  if c.flags['boolForCategoricalTravelsAsNumber']:
    c.prop_fail(KEY_BOOL_WIRE, 'categorical parameter c given True (accepted by SearchSpace.contains) is presented as %r' % (r[1],),
                {'space': "add_categorical_param('c', ['True','False','a'])", 'trial': {'c': True}, 'presented': sl.tag(r[1]['c'])})
  # (2) plain parameter named like an indexed base
  ss = pcm.SearchSpace()
  ss.root.add_float_param('m', 0, 1)
  ss.root.add_int_param('m', 0, 3, index=0)
  sc = study_config_of(ss)
  r = _try(lambda: sc.trial_parameters(pcv.TrialConverter.to_proto(vz.Trial(parameters={'m': 0.5, 'm[0]': 2}))))
  c.flags['plainOverwrittenByIndexedBase'] = (r[0] == 'ok' and r[1] == {'m': [2.0]})
  if c.flags['plainOverwrittenByIndexedBase']:
    c.prop_fail(KEY_BASE_CLASH, "trial {'m': 0.5, 'm[0]': 2} is presented as %r: the value of m is lost without an error" % (r[1],),
                {'space': "add_float_param('m',0,1); add_int_param('m',0,3,index=0)", 'trial': {'m': 0.5, 'm[0]': 2}})
  # (2b) the same name under two parent values, only one of the two configs has a child
  ss = pcm.SearchSpace()
  ss.root.add_categorical_param('model', ['a', 'b'])
  ss.root.select('model', ['a']).add_discrete_param('lr', [1, 2])
  ss.root.select('model', ['b']).add_discrete_param('lr', [1, 2])
  ss.root.select('model', ['a']).select('lr', [1]).add_float_param('mom', 0, 1)
  sc = study_config_of(ss)
  r = _try(lambda: sc.trial_parameters(pcv.TrialConverter.to_proto(vz.Trial(parameters={'model': 'b', 'lr': 1, 'mom': 0.5}))))
  by_name = (r[0] == 'ok' and 'mom' in r[1])
  c.flags['parentByName'] = by_name
  CFG['parentByName'] = by_name
  if by_name:
    c.prop_fail(KEY_TWIN, "trial {'model':'b','lr':1,'mom':0.5} is presented as %r although mom exists only under model='a', lr=1" % (r[1],),
                {'space': "model in {a,b}; lr in {1,2} under both; mom under (model=a, lr=1) only", 'trial': {'model': 'b', 'lr': 1, 'mom': 0.5}})
  # (3) grandchildren through the StudySpec proto
  ss = pcm.SearchSpace()
  ss.root.add_categorical_param('a', ['x', 'y'])
  ss.root.select('a', ['x']).add_categorical_param('b', ['u', 'v'])
  ss.root.select('a', ['x']).select('b', ['u']).add_float_param('g', 0, 1)
  sc = study_config_of(ss)
  from vizier.service import pyvizier as svz
  back = svz.StudyConfig.from_proto(sc.to_proto())
  lost = sl.depth_of(sl.dump_space(back.search_space)) < 3
  c.flags['studySpecProtoDropsGrandchildren'] = lost


def run(c):
  c.proof_stage()
  from vcheck import svc  # noqa: F401  (installs the shims before vizier is imported)
  witnesses(c)
  cast_stage(c)
  autocast_stage(c)
  parse_stage(c)
  presentation_stage(c)
  foreign_spec_stage(c)
  client_stage(c)
  return c.finish(
      level='proof',
      rule='casts: every (value, external type) pair of the grid; names: non-trivial = contains both brackets; '
           'presentations: non-trivial = space of depth >= 2 or a trial with an unknown / inactive / orphan / missing parameter; '
           'every trial read through clients.Trial.parameters counts',
      assumptions=[
          'parameter names use ASCII digits in their index and do not end in a newline (the regex \\d / $ quirks are not modelled)',
          'string values other than "True"/"False" are not numerals (float("3") parsing in as_float/as_int is not modelled)',
          'Python ints are exactly representable as double',
          'a trial is a dict: parameter names are unique; two simultaneously active parameters of the same name are outside the property',
      ])
