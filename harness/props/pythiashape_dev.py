"""Stand-alone runner of the Pythia-glue stage (vcheck/pythiashapecheck.py) while it is not yet wired into C08 / C12 / C06.

  /venv/bin/python harness/props/pythiashape_dev.py [--tier quick|thorough] [--seed N] [--no-proof] [--finding]

`pythiashapecheck.translate` (regenerates Generated/PythiaShape.lean from `VERIF_REPO`), proof stage over
lean/theorems/PythiaShape.json, then `pythiashapecheck.stage`.  Evidence goes to evidence/PythiaShape.json, replays to
replays/PythiaShape/ (the Check object is built with the id C08 for its random stream and then renamed, so nothing of C08 is
overwritten)."""
import json
import os
import sys

HERE = os.path.dirname(os.path.dirname(os.path.abspath(__file__)))
sys.path.insert(0, HERE)
os.environ.setdefault('GRPC_VERBOSITY', 'NONE')
os.environ.setdefault('TF_CPP_MIN_LOG_LEVEL', '3')
os.environ.setdefault('JAX_PLATFORMS', 'cpu')
os.environ.setdefault('PYTHONHASHSEED', '0')

from vcheck import core  # noqa: E402


def run(c, proof=True):
  import time
  from vcheck import pythiashapecheck
  c.theorems = json.load(open(os.path.join(core.LEAN_DIR, 'theorems', 'PythiaShape.json')))
  t = time.time()
  pythiashapecheck.translate(c)
  if proof:
    c.proof_stage()
  t1 = time.time()
  n = pythiashapecheck.stage(c)
  print('translate+proof %.1f s; stage: %d calls, %.1f s, obligations %d/%d, tie breaks %d, violations %d' % (
      t1 - t, n, time.time() - t1, sum(1 for _, ok, _ in c.obligations if ok), len(c.obligations), len(c.tie_breaks), len(c.violations)))
  for name, ok, detail in c.obligations:
    if not ok:
      print('  obligation fails: %s (%s)' % (name, detail[:300]))
  return c.finish(
      level='proof',
      rule='every public method / property of ServicePolicySupporter called on a server whose study has trials in every state and a '
           'deleted one (GetTrials: no arguments, existing / deleted / never-existing ids, min / max id, each status, combinations, without '
           'intermediate measurements, other and missing study), once through the in-process servicer and once through the gRPC stub of '
           'the same server: recorded RPC names vs `admits` of the table generated from the tree, answers vs Loader.getTrialsF, gaps absent, '
           'both transports equal; the real PythiaServicer around a scripted policy raising 11 exception classes: class that leaves vs the '
           'generated handler table and vs the documented RuntimeError; non-trivial = one arrangement (one server, both transports)',
      assumptions=['the translator is sound for straight-line / if / try / loop code that calls the service through self._vizier_service or a '
                   'local bound to it; everything else is reported as unrecognised, not dropped',
                   'exception classes are open-ended: wrapsAs requires every clause up to the first catch-all clause to re-raise as the documented class',
                   'the gRPC stub and the in-process servicer of one DefaultVizierServer share the datastore (same contents by construction)'])


def main():
  import argparse
  try:
    from absl import logging as absl_logging
    absl_logging.set_verbosity(absl_logging.FATAL)
    absl_logging.set_stderrthreshold('fatal')
    import logging
    logging.disable(logging.CRITICAL)
  except Exception:  # pylint: disable=broad-except
    pass
  ap = argparse.ArgumentParser()
  ap.add_argument('--tier', default=None)
  ap.add_argument('--seed', default=None)
  ap.add_argument('--no-proof', action='store_true')
  ap.add_argument('--finding', action='store_true', help='only replay the witness of pythia-policy-failure-not-wrapped:EarlyStop through the service')
  a = ap.parse_args()
  c = core.Check('C08', a.tier, a.seed)
  c.pid = 'PythiaShape'
  if a.finding:
    # stand-alone reproduction: a policy whose early_stop / suggest looks up a missing study through its supporter, hosted in the
    # local deployment (VizierServicer + in-process PythiaServicer) and in the split one (DistributedPythiaVizierServer)
    import random
    from vcheck import pythiashapecheck
    r = pythiashapecheck.deployment_consequence(c, random.Random(c.seed))
    print(r['policy'])
    for rpc, per in sorted(r['per_rpc'].items()):
      print('%s: %s%s' % (rpc, ', '.join('%s -> %s' % (k, ' '.join(str(x) for x in v)) for k, v in sorted(per.items())),
                          '   <-- differs by deployment' if len(set(map(str, per.values()))) > 1 else ''))
    sys.exit(1 if any(len(set(map(str, per.values()))) > 1 for per in r['per_rpc'].values()) else 0)
  c.known = [e for e in core.load_known_findings() if e['property'] == 'PythiaShape' and e.get('status') == 'known']
  try:
    code = run(c, proof=not a.no_proof)
  except core.InfraError as e:
    print('INFRA-ERROR property=PythiaShape %s' % e, file=sys.stderr)
    sys.exit(2)
  sys.exit(code)


if __name__ == '__main__':
  main()
