"""C13 — a restarted stateful algorithm continues exactly like one that never stopped.

Proof stage: Props/C13.lean (generic restart transparency, grid / quasi-random round trips,
mixed-radix bijection, each-point-once, evolution phase-counter variants).

Tie + property stage: differential runs on the REAL designers.  Run A keeps one instance
alive, run B inserts dump -> fresh instance -> load before a generated subset of steps, the
dumped metadata travelling (i) as the vz.Metadata object, (ii) through the KeyValue proto
bytes under the policy's namespace, (iii) through PartiallySerializableDesignerPolicy rebuilt
per request on an in-RAM supporter, (iv) through the real SQL-backed service (Pythia rebuilds
the policy on every request) with server restarts on the same SQLite file.  The Lean driver
supplies the grid enumeration, the model runs (grid / Halton index / evolution phase) and the
each-point-once / balanced judges that are applied to the REAL observations."""
import copy
import json
import math
import os
import random

from vcheck import core

ROOT = 'designer_policy_v0'
KEY_D10 = 'shuffled-grid-search-cannot-be-hosted'
KEY_EVO_SEEN = 'evolution-restart-resets-num-trials-seen'
KEY_EVO_SAMPLER = 'evolution-restart-resets-sampler-state'
KEY_CMA_QUEUE = 'cmaes-restart-loses-partial-population'
KEY_CMA_HOST = 'cmaes-cannot-be-hosted'


# ------------------------------------------------------------------ spaces
def gen_space(rng, kinds, nmin=1, nmax=3, degenerate=False):
  """A flat search space as a JSON-able descriptor list."""
  params = []
  for j in range(rng.randrange(nmin, nmax + 1)):
    k = rng.choice(kinds)
    name = rng.choice(['a', 'b', 'lr', 'x_1', 'Width']) + str(j)
    if k == 'double':
      scale = rng.choice(['LINEAR', 'LINEAR', 'LOG', 'REVERSE_LOG', None])
      if scale in ('LOG', 'REVERSE_LOG'):
        lo = rng.choice([1e-3, 0.5, 1.0, 2.0])
        hi = lo * rng.choice([2.0, 10.0, 1000.0])
      else:
        lo = rng.choice([-2.0, -0.5, 0.0, 1.0, 3.25])
        hi = lo + rng.choice([0.5, 1.0, 4.0, 100.0])
      if degenerate and rng.random() < 0.15:
        hi = lo
      params.append({'name': name, 'kind': 'double', 'lo': lo, 'hi': hi, 'scale': scale})
    elif k == 'int':
      lo = rng.randrange(-3, 4)
      params.append({'name': name, 'kind': 'int', 'lo': lo, 'hi': lo + rng.randrange(0, 4)})
    elif k == 'discrete':
      vals = sorted(rng.sample([-1.5, 0.0, 0.5, 1.0, 2.5, 7.0, 100.0], rng.randrange(1, 5)))
      params.append({'name': name, 'kind': 'discrete', 'values': vals})
    else:
      vals = rng.sample(['x', 'y', 'z', 'relu', 'Tanh', 'a b'], rng.randrange(1, 5))
      params.append({'name': name, 'kind': 'cat', 'values': vals})
  return params


def build_problem(desc, metrics=(('obj', 'MAXIMIZE'),)):
  from vizier import pyvizier as vz
  p = vz.ProblemStatement()
  root = p.search_space.root
  for d in desc:
    if d['kind'] == 'double':
      kw = {}
      if d.get('scale'):
        kw['scale_type'] = getattr(vz.ScaleType, d['scale'])
      root.add_float_param(d['name'], d['lo'], d['hi'], **kw)
    elif d['kind'] == 'int':
      root.add_int_param(d['name'], d['lo'], d['hi'])
    elif d['kind'] == 'discrete':
      root.add_discrete_param(d['name'], d['values'])
    else:
      root.add_categorical_param(d['name'], d['values'])
  for name, goal in metrics:
    p.metric_information.append(vz.MetricInformation(name=name, goal=getattr(vz.ObjectiveMetricGoal, goal)))
  return p


def study_spec(problem, algorithm):
  from vizier.service import pyvizier as svz
  sc = svz.StudyConfig.from_problem(problem)
  sc.algorithm = algorithm
  return sc.to_proto()


# ------------------------------------------------------------------ canonical forms
def canon_value(v):
  """exact, type-insensitive between int and float (the wire format carries numbers as doubles)"""
  if isinstance(v, str):
    return 's:' + v
  f = float(v)
  return 'n:' + (f.hex() if math.isfinite(f) else repr(f))


def canon_params(parameters):
  return {k: canon_value(pv.value) for k, pv in parameters.items()}


def canon_md(md, drop=()):
  """all items at or below the current namespace of `md`, with RELATIVE namespaces"""
  out = []
  for ns in md.subnamespaces():
    for k, v in md.abs_ns(md.current_ns() + ns).items():
      if k in drop:
        continue
      if k == 'incorporated_completed_trials_ids' and isinstance(v, str):
        # json.dumps(list(<a Python set>)): the order of the list is not state
        try:
          v = json.dumps(sorted(json.loads(v)))
        except (ValueError, TypeError):
          pass
      out.append([ns.encode().lstrip(':') + '|' + k, v if isinstance(v, str) else repr(v)])
  return sorted(out)


def canon_suggestion(s):
  return [canon_params(s.parameters), canon_md(s.metadata)]


DUMP_DROP = ('dump_timestamp',)      # eagle writes time.time() into its dump: not state


def via_object(md):
  return md


def via_proto(md):
  """the road the policy's dump takes: MetadataDelta.on_study.ns(root).attach -> KeyValue protos ->
  bytes -> StudySpec.metadata -> vz.Metadata -> .ns(root).ns('designer')"""
  from vizier import pyvizier as vz
  from vizier._src.pyvizier.oss import metadata_util
  from vizier._src.service import study_pb2
  outer = vz.Metadata()
  outer.ns(ROOT).ns('designer').attach(md)
  spec = study_pb2.StudySpec()
  metadata_util.merge_study_metadata(spec, metadata_util.make_key_value_list(outer))
  spec2 = study_pb2.StudySpec.FromString(spec.SerializeToString())
  return metadata_util.from_key_value_list(spec2.metadata).ns(ROOT).ns('designer')


VIAS = {'object': via_object, 'proto': via_proto}


# ------------------------------------------------------------------ the run engine
class Measure:
  """deterministic outcome of trial `tid` (same in run A and run B)"""

  def __init__(self, seed, metric_names, p_infeasible=0.1, ties=True, p_nonfinite=0.0):
    self.seed, self.names, self.p_inf, self.ties, self.p_nonfinite = seed, metric_names, p_infeasible, ties, p_nonfinite

  def complete(self, trial):
    from vizier import pyvizier as vz
    r = random.Random(self.seed * 7919 + trial.id)
    if r.random() < self.p_inf:
      return trial.complete(vz.Measurement(), infeasibility_reason='infeasible')
    m = {}
    for n in self.names:
      m[n] = r.choice([0.0, 0.5, 1.0]) if (self.ties and r.random() < 0.25) else r.uniform(-2.0, 2.0)
      if self.p_nonfinite and r.random() < self.p_nonfinite:
        # what a diverged evaluation reports: the persisted state must carry it as it is
        m[n] = r.choice([float('nan'), float('inf'), float('-inf')])
    return trial.complete(vz.Measurement(metrics=m))


def drive(fresh, steps, restarts, via, measure, feed=None, probe=None):
  """One run.  fresh(i) builds a new instance (i = 0 initially, i = step index + 1 for the
  instance built at a restart before that step).  Own mode (feed None): the run's own suggestions
  become trials 1,2,… and are completed by `measure`; shadow mode: the (completed, active) trial
  lists recorded by another run are delivered instead.  Returns (records, feed).  An exception
  raised by the designer ends the run with a record {'exc': ...} (compared like any other output)."""
  from vizier import algorithms as vza
  d = fresh(0)
  recs, out_feed, pending, tid = [], [], [], 0
  for i, st in enumerate(steps):
    try:
      if restarts[i]:
        md = via(d.dump())
        d = fresh(i + 1)
        d.load(md)
      if feed is None:
        k = min(st['complete'], len(pending))
        completed = [measure.complete(t) for t in pending[:k]]
        pending = pending[k:]
        active = list(pending)
      else:
        completed, active = copy.deepcopy(feed[i])
      out_feed.append((copy.deepcopy(completed), copy.deepcopy(active)))
      if not st.get('skip_update'):
        d.update(vza.CompletedTrials(completed), vza.ActiveTrials(active))
      sug = list(d.suggest(st['count']))
      if feed is None:
        for s in sug:
          tid += 1
          pending.append(s.to_trial(tid))
      rec = {'sug': [canon_suggestion(s) for s in sug], 'dump': canon_md(d.dump(), DUMP_DROP)}
      if probe is not None:
        rec['probe'] = probe(d, sug)
    except Exception as e:  # pylint: disable=broad-except
      recs.append({'exc': '%s: %s' % (type(e).__name__, str(e)[:300]), 'sug': None, 'dump': None, 'probe': None})
      break
    recs.append(rec)
  return recs, out_feed


def live_failed(c, kind, a):
  """the live run itself raised: nothing to compare (not a restart matter)"""
  if a and 'exc' in a[-1]:
    c.dist['live-run-raised:' + kind] = c.dist.get('live-run-raised:' + kind, 0) + 1
    if len(c.notes) < 5:
      c.notes.append('%s: the live run raised %s (case skipped)' % (kind, a[-1]['exc'][:200]))
    return True
  return False


def restart_raised(c, kind, case, a, b):
  """run B raised where run A did not"""
  if b and 'exc' in b[-1]:
    i = len(b) - 1
    c.prop_fail(kind + '-restart-raises',
                '%s: the run with restarts raises at step %d (%s); the live run does not' % (kind, i, b[-1]['exc']),
                dict(case, step=i, error=b[-1]['exc']))
    return True
  return False


def first_diff(a, b, fields):
  for i, (x, y) in enumerate(zip(a, b)):
    for f in fields:
      if x.get(f) != y.get(f):
        return i, f
  return None


def gen_steps(rng, nsteps, max_count=5, complete_all=False):
  steps, pend = [], 0
  for _ in range(nsteps):
    c = rng.randrange(1, max_count + 1)
    k = pend if complete_all else rng.randrange(0, pend + 1)
    st = {'count': c, 'complete': k}
    if not complete_all and rng.random() < 0.2:
      # suggest() straight away, with no update() call before it (after a restart: load() then suggest())
      st = {'count': c, 'complete': 0, 'skip_update': True}
      k = 0
    pend = pend - k + c
    steps.append(st)
  return steps


def gen_restarts(rng, n):
  mode = rng.choice(['every', 'subset', 'subset', 'one'])
  if mode == 'every':
    return [True] * n
  if mode == 'one':
    j = rng.randrange(n)
    return [i == j for i in range(n)]
  return [rng.random() < 0.5 for _ in range(n)]


def short(x, n=600):
  s = json.dumps(x, default=str)
  return s if len(s) <= n else s[:n] + '…'


# ------------------------------------------------------------------ grid (designer level)
def grid_lists(designer, attr):
  return [[name, [canon_value(pv.value) for pv in vals]] for name, vals in getattr(designer, attr).items()]


def expected_param_grid(d, resolution):
  """independent statement of the per-parameter grid (floats to 1e-9 relative)"""
  if d['kind'] == 'int':
    return [float(v) for v in range(d['lo'], d['hi'] + 1)], 0.0
  if d['kind'] == 'discrete':
    return [float(v) for v in sorted(d['values'])], 0.0
  if d['kind'] == 'cat':
    return sorted(d['values']), 0.0
  lo, hi = d['lo'], d['hi']
  if lo == hi:
    return [lo], 0.0
  us = [i / (resolution - 1) for i in range(resolution)]
  if d.get('scale') == 'LOG':
    return [lo * (hi / lo) ** u for u in us], 1e-6
  if d.get('scale') == 'REVERSE_LOG':
    return [lo + hi - lo * (hi / lo) ** (1.0 - u) for u in us], 1e-6
  return [lo + (hi - lo) * u for u in us], 1e-6


def point_in_order(params_canon, names):
  return [[n, params_canon[n]] for n in names]


def is_shuffle_of(base, shuf):
  """keys permuted, every value list permuted"""
  if sorted(n for n, _ in base) != sorted(n for n, _ in shuf):
    return False
  b = dict((n, v) for n, v in base)
  return all(sorted(b[n]) == sorted(v) for n, v in shuf)


def grid_designer_stage(c, n_cases):
  from vizier._src.algorithms.designers import grid
  reqs, cases = [], []
  for ci in range(n_cases):
    desc = gen_space(c.rng, ['double', 'int', 'discrete', 'cat'], 1, 3, degenerate=True)
    names = [d['name'] for d in desc]
    if len(set(names)) != len(names):
      continue
    problem = build_problem(desc)
    res = c.rng.choice([2, 3, 4, 10])
    seed = c.rng.choice([None, None, 0, 1, 7, -3, 2 ** 40 + 1, c.rng.randrange(10 ** 6)])
    vary = c.rng.random() < 0.5
    via = c.rng.choice(sorted(VIAS))

    def fresh(i, seed=seed, vary=vary, problem=problem, res=res):
      s = seed if (i == 0 or not vary) else c.rng.choice([None, 11 + i, seed])
      return grid.GridSearchDesigner(problem.search_space, s, double_grid_resolution=res)
    probe0 = fresh(0)
    base = grid_lists(probe0, '_unshuffled_grid_values')
    eff = grid_lists(probe0, '_grid_values')
    n = 1
    for _, vs in base:
      n *= len(vs)
    # batch sizes: cover the grid twice (+ a bit) so that the repetition is observed
    steps, tot = [], 0
    target = 2 * n + c.rng.randrange(0, 4)
    while tot < target:
      cnt = c.rng.choice([1, 1, 2, 3, 5, max(1, n // 2), n, n + 1])
      cnt = min(cnt, max(1, target - tot)) if c.rng.random() < 0.7 else cnt
      if tot + cnt > 4 * n + 8:
        cnt = 1
      steps.append({'count': cnt, 'complete': c.rng.randrange(0, 3)})
      tot += cnt
    if c.rng.random() < 0.1:
      steps[0]['count'] = 0          # `count or 1`
    restarts = gen_restarts(c.rng, len(steps))
    case = {'space': desc, 'resolution': res, 'seed': seed, 'vary_ctor_seed': vary, 'via': via,
            'counts': [s['count'] for s in steps], 'restarts': restarts}
    measure = Measure(ci, ['obj'])
    a, _ = drive(fresh, steps, [False] * len(steps), via_object, measure)
    b, _ = drive(fresh, steps, restarts, VIAS[via], measure)
    c.traces += 2
    if live_failed(c, 'grid', a) or restart_raised(c, 'grid', case, a, b):
      continue
    c.count(1, ('grid', ci) if (any(restarts[1:]) and n > 1) else None, kind='designer:grid')
    # ---- hypotheses of the model, checked on the real objects
    exp_ok = True
    for d, (nm, vals) in zip(desc, base):
      want, tol = expected_param_grid(d, res)
      got = [v[2:] if v.startswith('s:') else float.fromhex(v[2:]) for v in vals]
      if d['kind'] == 'cat':
        exp_ok &= (nm == d['name'] and got == want)
      else:
        exp_ok &= (nm == d['name'] and len(got) == len(want) and
                   all(abs(g - w) <= tol * max(1.0, abs(w)) for g, w in zip(got, want)))
      if len(set(vals)) != len(vals):
        exp_ok = False
    if not exp_ok:
      c.tie_break('GridSearchDesigner._unshuffled_grid_values vs the parameter configs', case, base, 'range / feasible values / linspace in scaled space')
    again = grid_lists(fresh(0), '_grid_values')
    if (seed is None and eff != base) or not is_shuffle_of(base, eff) or again != eff:
      c.tie_break('_maybe_shuffled_grid_values is not a seed-determined permutation', case, eff, base)
    # ---- property on the real runs: A == B
    fd = first_diff(a, b, ['sug', 'dump'])
    if fd is not None:
      i, f = fd
      c.prop_fail('grid-restart-mismatch' + (':ctor-seed' if vary else ''),
                  'GridSearchDesigner: run with restarts differs from the live run at step %d (%s): live %s, restarted %s' % (i, f, short(a[i][f], 300), short(b[i][f], 300)),
                  dict(case, step=i, field=f, live=a[i][f], restarted=b[i][f]))
    eff_names = [nm for nm, _ in eff]
    obs = [point_in_order(s[0], eff_names) for r in b for s in r['sug']]
    reqs.append({'op': 'grid_run', 'base': base, 'shuffled': None if seed is None else eff, 'seed': seed,
                 'counts': case['counts'],
                 'restarts': [({'k': None if j % 2 else 5 + j} if r else None) for j, r in enumerate(restarts)]})
    reqs.append({'op': 'each_once', 'grids': eff, 'obs': obs})
    reqs.append({'op': 'same_order_repeat', 'grids': eff, 'obs': obs})
    cases.append((case, a, b, eff_names, obs))
    if ci == 0:
      c.sample({'grid-designer': case, 'first_batches': [r['sug'] for r in a[:2]]})
  res = c.lean('C13', reqs)
  for j, (case, a, b, eff_names, obs) in enumerate(cases):
    m, judge, rep = res[3 * j], res[3 * j + 1], res[3 * j + 2]
    for r in (m, judge, rep):
      if 'error' in r:
        raise core.InfraError('driver C13: %s' % r)
    real_a = [[point_in_order(s[0], eff_names) for s in r['sug']] for r in a]
    if real_a != m['batches']:
      i = next((i for i, (x, y) in enumerate(zip(real_a, m['batches'])) if x != y), -1)
      c.tie_break('GridSearchDesigner.suggest vs model pointAt (live run)', dict(case, step=i), real_a[i] if i >= 0 else real_a, m['batches'][i] if i >= 0 else m['batches'])
    want_dump = [['grid|current_index', str(m['dump']['current_index'])],
                 ['grid|shuffle_seed', 'None' if m['dump']['shuffle_seed'] is None else str(m['dump']['shuffle_seed'])]]
    if b[-1]['dump'] != want_dump:
      c.tie_break('GridSearchDesigner.dump vs model', case, b[-1]['dump'], want_dump)
    if not judge['ok'] or not rep['ok']:
      c.prop_fail('grid-not-each-point-once',
                  'GridSearchDesigner (with restarts): the suggestion stream is not "every grid point once, then the same order again" (blocks ok: %s, same-order repeat: %s)' % (judge['blocks'], rep['ok']),
                  dict(case, observed=obs[:40], grid=case['space']))


# ------------------------------------------------------------------ quasi-random (designer level)
def quasi_random_stage(c, n_cases):
  from vizier._src.algorithms.designers import quasi_random
  reqs, cases = [], []
  ref_cache = {}
  for ci in range(n_cases):
    desc = gen_space(c.rng, ['double', 'int', 'discrete', 'cat'], 1, 3)
    if len(set(d['name'] for d in desc)) != len(desc):
      continue
    problem = build_problem(desc)
    seed = c.rng.choice([0, 1, 3, 12345, c.rng.randrange(2 ** 31)])
    skip0 = c.rng.choice([0, 1, 17, 1000, 1000])
    vary = c.rng.random() < 0.5
    via = c.rng.choice(sorted(VIAS))

    def fresh(i, seed=seed, vary=vary, problem=problem, skip0=skip0):
      s = seed if (i == 0 or not vary) else seed + 100 + i
      return quasi_random.QuasiRandomDesigner(problem.search_space, skip_points=skip0, seed=s)
    steps = gen_steps(c.rng, c.rng.randrange(2, 9), max_count=4)
    if c.rng.random() < 0.1:
      steps[-1]['count'] = 0
    restarts = gen_restarts(c.rng, len(steps))
    case = {'space': desc, 'seed': seed, 'skip_points': skip0, 'vary_ctor_seed': vary, 'via': via,
            'counts': [s['count'] for s in steps], 'restarts': restarts}
    measure = Measure(ci, ['obj'])
    a, _ = drive(fresh, steps, [False] * len(steps), via_object, measure)
    b, _ = drive(fresh, steps, restarts, VIAS[via], measure)
    c.traces += 2
    if live_failed(c, 'quasi-random', a) or restart_raised(c, 'quasi-random', case, a, b):
      continue
    c.count(1, ('qr', ci) if any(restarts[1:]) else None, kind='designer:quasi_random')
    fd = first_diff(a, b, ['sug', 'dump'])
    if fd is not None:
      i, f = fd
      c.prop_fail('quasi-random-restart-mismatch' + (':ctor-seed' if vary else ''),
                  'QuasiRandomDesigner: run with restarts differs from the live run at step %d (%s): live %s, restarted %s' % (i, f, short(a[i][f], 300), short(b[i][f], 300)),
                  dict(case, step=i, field=f, live=a[i][f], restarted=b[i][f]))
    reqs.append({'op': 'halton_run', 'skip0': skip0, 'seed': seed, 'counts': case['counts'],
                 'restarts': [({'k': seed + 100 + j} if r else None) for j, r in enumerate(restarts)]})
    cases.append((case, b, problem))
    if ci == 0:
      c.sample({'quasi-random-designer': case, 'first_batch': a[0]['sug']})
  res = c.lean('C13', reqs)
  for (case, b, problem), m in zip(cases, res):
    if 'error' in m:
      raise core.InfraError('driver C13: %s' % m)
    # the model answers with Halton indices; H(seed, k) is realised by a fresh engine fast-forwarded to k
    ok = True
    for i, (rec, mb) in enumerate(zip(b, m['batches'])):
      want = []
      for s_, k in mb:
        key = (json.dumps(case['space']), s_, k)
        if key not in ref_cache:
          dk = quasi_random.QuasiRandomDesigner(problem.search_space, skip_points=k, seed=s_)
          ref_cache[key] = canon_suggestion(dk.suggest(1)[0])
        want.append(ref_cache[key])
      if rec['sug'] != want and ok:
        ok = False
        c.tie_break('QuasiRandomDesigner.suggest vs model "fast_forward k; next = H(seed, k)"', dict(case, step=i), rec['sug'], want)
    want_dump = [['quasi_random|seed', str(m['dump']['seed'])], ['quasi_random|skip_points', str(m['dump']['skip_points'])]]
    if b[-1]['dump'] != want_dump:
      c.tie_break('QuasiRandomDesigner.dump vs model', case, b[-1]['dump'], want_dump)


# ------------------------------------------------------------------ eagle (designer level)
def eagle_stage(c, n_cases):
  from vizier._src.algorithms.designers.eagle_strategy import eagle_strategy
  for ci in range(n_cases):
    desc = gen_space(c.rng, ['double', 'double', 'int', 'discrete', 'cat'], 1, 3)
    if len(set(d['name'] for d in desc)) != len(desc):
      continue
    goal = c.rng.choice(['MAXIMIZE', 'MINIMIZE'])
    problem = build_problem(desc, (('obj', goal),))
    seed = c.rng.randrange(10 ** 6)
    vary = c.rng.random() < 0.5
    via = c.rng.choice(sorted(VIAS))

    def fresh(i, seed=seed, vary=vary, problem=problem):
      s = seed if (i == 0 or not vary) else seed + 100 + i
      return eagle_strategy.EagleStrategyDesigner(problem, seed=s)
    # long enough to fill the pool and reach the mutate/perturb phase
    steps = gen_steps(c.rng, c.rng.randrange(6, 40), max_count=5)
    restarts = gen_restarts(c.rng, len(steps))
    case = {'space': desc, 'goal': goal, 'seed': seed, 'vary_ctor_seed': vary, 'via': via,
            'steps': steps, 'restarts': restarts}
    measure = Measure(ci, ['obj'], p_infeasible=0.12)

    def probe(d, sug):
      return {'pool': d._firefly_pool.size, 'capacity': d._firefly_pool.capacity}  # pylint: disable=protected-access
    a, _ = drive(fresh, steps, [False] * len(steps), via_object, measure, probe=probe)
    b, _ = drive(fresh, steps, restarts, VIAS[via], measure, probe=probe)
    c.traces += 2
    if live_failed(c, 'eagle', a) or restart_raised(c, 'eagle', case, a, b):
      continue
    evolved = any(r['probe']['pool'] >= r['probe']['capacity'] for r in a)
    c.count(1, ('eagle', ci) if (evolved and any(restarts[1:])) else None, kind='designer:eagle' + (':mutating' if evolved else ':filling-pool'))
    fd = first_diff(a, b, ['sug', 'dump'])
    if fd is not None:
      i, f = fd
      c.prop_fail('eagle-restart-mismatch' + (':ctor-seed' if vary else ''),
                  'EagleStrategyDesigner: run with restarts differs from the live run at step %d (%s): live %s, restarted %s' % (i, f, short(a[i][f], 300), short(b[i][f], 300)),
                  dict(case, step=i, field=f, live=a[i][f], restarted=b[i][f]))
    if ci == 0:
      c.sample({'eagle-designer': {k: case[k] for k in ('space', 'seed', 'via')}, 'n_steps': len(steps), 'reached_mutation_phase': evolved})


# ------------------------------------------------------------------ NSGA-II (designer level)
def nsga_probe(d, sug):
  gens, ids = [], []
  for s in sug:
    v = json.loads(s.metadata.ns('nsga2')['values'])
    gens += v['generations']['value']
    ids += v['ids']['value']
  phase = 'none' if not sug else ('sampling' if all(g == 0 for g in gens) else 'mutation')
  return {'phase': phase, 'ids': ids, 'n': len(sug),
          'num_trials_seen': getattr(d, '_num_trials_seen', None),
          'num_samples': getattr(getattr(d, '_sampler', None), '_num_samples', None)}


def identify_evo_variant(c):
  """replay the witness of c13_evolution_counter_counterexample on the real NSGA2Designer"""
  from vizier._src.algorithms.evolution import nsga2
  problem = build_problem([{'name': 'x', 'kind': 'double', 'lo': 0.0, 'hi': 1.0, 'scale': None}], (('m1', 'MAXIMIZE'), ('m2', 'MINIMIZE')))
  steps = [{'count': 2, 'complete': 0}, {'count': 1, 'complete': 2}, {'count': 1, 'complete': 0}]

  def fresh(i):
    return nsga2.NSGA2Designer(problem, population_size=2, first_survival_after=2, seed=1)
  measure = Measure(1, ['m1', 'm2'], p_infeasible=0.0)
  a, feed = drive(fresh, steps, [False, False, False], via_object, measure, probe=nsga_probe)
  b, _ = drive(fresh, steps, [False, False, True], via_proto, measure, feed=feed, probe=nsga_probe)
  if any('exc' in r for r in a + b):
    raise core.InfraError('NSGA2 witness run raised: %s' % [r['exc'] for r in a + b if 'exc' in r])
  pa, pb = [r['probe']['phase'] for r in a], [r['probe']['phase'] for r in b]
  dumps_seen = (pa == pb)
  c.flags['evolutionDumpsNumTrialsSeen'] = dumps_seen
  if not dumps_seen:
    c.prop_fail(KEY_EVO_SEEN,
                'NSGA2Designer(first_survival_after=2): after 2 completed trials the live instance mutates its population (phases %s) but after dump -> fresh -> load it is back in the sampling phase (phases %s): _num_trials_seen is not part of dump()' % (pa, pb),
                {'witness': 'c13_evolution_counter_counterexample', 'steps': steps, 'restarts': [False, False, True], 'live_phases': pa, 'restarted_phases': pb})
  return dumps_seen


def nsga_stage(c, n_cases, dumps_seen):
  from vizier._src.algorithms.evolution import nsga2
  reqs, cases = [], []
  for ci in range(n_cases):
    desc = gen_space(c.rng, ['double', 'double', 'int', 'discrete', 'cat'], 1, 3)
    if len(set(d['name'] for d in desc)) != len(desc):
      continue
    nm = c.rng.randrange(1, 4)
    metrics = tuple(('m%d' % k, c.rng.choice(['MAXIMIZE', 'MINIMIZE'])) for k in range(nm))
    problem = build_problem(desc, metrics)
    seed = c.rng.randrange(10 ** 6)
    ps = c.rng.randrange(2, 7)
    fsa = c.rng.choice([None, 1, 3, 5, 8])
    via = c.rng.choice(sorted(VIAS))

    def fresh(i, seed=seed, problem=problem, ps=ps, fsa=fsa):
      return nsga2.NSGA2Designer(problem, population_size=ps, first_survival_after=fsa, seed=seed)
    steps = gen_steps(c.rng, c.rng.randrange(4, 14), max_count=4)
    restarts = gen_restarts(c.rng, len(steps))
    case = {'space': desc, 'metrics': metrics, 'seed': seed, 'population_size': ps, 'first_survival_after': fsa,
            'via': via, 'steps': steps, 'restarts': restarts}
    measure = Measure(ci, [m for m, _ in metrics], p_infeasible=0.0, p_nonfinite=0.15 if ci % 3 == 2 else 0.0)
    case['nonfinite_metrics'] = ci % 3 == 2
    a, feed = drive(fresh, steps, [False] * len(steps), via_object, measure, probe=nsga_probe)
    # shadow mode: the restarted run receives exactly the trial history of the live run
    b, _ = drive(fresh, steps, restarts, VIAS[via], measure, feed=feed, probe=nsga_probe)
    c.traces += 2
    if live_failed(c, 'nsga2', a) or restart_raised(c, 'nsga2', case, a, b):
      continue
    left_sampling = any(r['probe']['phase'] == 'mutation' for r in a)
    c.count(1, ('nsga2', ci) if (left_sampling and any(restarts[1:])) else None, kind='designer:nsga2' + (':left-sampling' if left_sampling else ':sampling-only'))
    # (1) population (the dumped trial counter is judged under (2))
    for r in a + b:
      r['seen_dumped'] = dict(r['dump']).get('|num_trials_seen')
      r['population'] = [e for e in r['dump'] if e[0] != '|num_trials_seen']
    fd = first_diff(a, b, ['population'])
    if fd is not None:
      i, _f = fd
      c.prop_fail('nsga2-restart-population-mismatch',
                  'NSGA2Designer: population after step %d differs between the live and the restarted run' % i,
                  dict(case, step=i, live=a[i]['population'], restarted=b[i]['population']))
    # (2) phase and trial counter
    for i, (x, y) in enumerate(zip(a, b)):
      px, py = x['probe'], y['probe']
      if px['phase'] != py['phase'] or px['n'] != py['n'] or px['num_trials_seen'] != py['num_trials_seen'] or x['seen_dumped'] != y['seen_dumped']:
        c.prop_fail(KEY_EVO_SEEN if not dumps_seen else 'nsga2-restart-phase-mismatch',
                    'NSGA2Designer: at step %d the live run is in phase %s (trials seen %s, %d suggestions), the restarted run in phase %s (trials seen %s, %d suggestions)' % (
                        i, px['phase'], px['num_trials_seen'], px['n'], py['phase'], py['num_trials_seen'], py['n']),
                    dict(case, step=i, live=px, restarted=py))
        break
    # (3) sampler counter: family ids handed to fresh samples
    for i, (x, y) in enumerate(zip(a, b)):
      px, py = x['probe'], y['probe']
      if px['phase'] == py['phase'] == 'sampling' and (px['ids'] != py['ids'] or px['num_samples'] != py['num_samples']):
        c.prop_fail(KEY_EVO_SAMPLER,
                    'NSGA2Designer: at step %d the live run hands out sample ids %s, the restarted run %s' % (i, px['ids'], py['ids']),
                    dict(case, step=i, live=px, restarted=py))
        break
    eff_fsa = fsa or 2 * ps
    reqs.append({'op': 'evo_run', 'dumps_seen': dumps_seen, 'first_survival_after': eff_fsa,
                 'steps': [[len(f[0]), st['count']] for f, st in zip(feed, steps)], 'restarts': restarts})
    reqs.append({'op': 'evo_run', 'dumps_seen': True, 'first_survival_after': eff_fsa,
                 'steps': [[len(f[0]), st['count']] for f, st in zip(feed, steps)], 'restarts': [False] * len(steps)})
    cases.append((case, a, b))
    if ci == 0:
      c.sample({'nsga2-designer': {k: case[k] for k in ('space', 'metrics', 'population_size', 'first_survival_after', 'via')},
                'live_phases': [r['probe']['phase'] for r in a]})
  res = c.lean('C13', reqs)
  for j, (case, a, b) in enumerate(cases):
    mb, ma = res[2 * j], res[2 * j + 1]
    for r in (mb, ma):
      if 'error' in r:
        raise core.InfraError('driver C13: %s' % r)
    ra = [r['probe']['phase'] for r in a]
    rb = [r['probe']['phase'] for r in b]
    if ra != ma['phases']:
      c.tie_break('CanonicalEvolutionDesigner phase (live) vs model', case, ra, ma['phases'])
    if rb != mb['phases']:
      c.tie_break('CanonicalEvolutionDesigner phase (restarted, variant dumps_seen=%s) vs model' % dumps_seen, case, rb, mb['phases'])


# ------------------------------------------------------------------ CMA-ES (designer level)
def cmaes_available(c):
  try:
    from vizier._src.algorithms.designers import cmaes
    problem = build_problem([{'name': 'x', 'kind': 'double', 'lo': 0.0, 'hi': 1.0, 'scale': None},
                             {'name': 'y', 'kind': 'double', 'lo': 0.0, 'hi': 1.0, 'scale': None}])
    d = cmaes.CMAESDesigner(problem)
    d.suggest(1)
    d.dump()
    return True
  except Exception as e:  # pylint: disable=broad-except
    c.notes.append('CMA-ES cannot run in this sandbox (%s: %s): covered by the generic theorem c13_restart_transparent only' % (type(e).__name__, str(e)[:200]))
    return False


def cmaes_stage(c, n_cases):
  from vizier._src.algorithms.designers import cmaes
  for ci in range(n_cases):
    nparams = c.rng.choice([2, 2, 3])
    desc = [{'name': 'p%d' % j, 'kind': 'double', 'lo': c.rng.choice([-1.0, 0.0]), 'hi': c.rng.choice([1.0, 5.0]), 'scale': None}
            for j in range(nparams)]
    goal = c.rng.choice(['MAXIMIZE', 'MINIMIZE'])
    problem = build_problem(desc, (('obj', goal),))
    via = c.rng.choice(sorted(VIAS))

    def fresh(i, problem=problem):
      return cmaes.CMAESDesigner(problem)
    pop = fresh(0)._cma_es_jax.hyper_parameters.pop_size  # pylint: disable=protected-access
    aligned = (ci % 3 != 2)
    if ci % 3 == 0:
      # whole populations between suggests: the buffer is empty at every restart
      nst = c.rng.randrange(3, 6)
      steps = [{'count': pop, 'complete': 0}] + [{'count': pop, 'complete': pop} for _ in range(nst)]
    elif ci % 3 == 1:
      # a population handed out in SEVERAL batches (state that moves without a generation change: the PRNG key),
      # completed as a whole: the buffer is still empty at every restart
      steps = []
      for g in range(c.rng.randrange(3, 5)):
        a1 = c.rng.randrange(1, pop)
        a2 = c.rng.randrange(1, pop - a1 + 1)
        parts = [x for x in (a1, a2, pop - a1 - a2) if x > 0]
        for k, cnt in enumerate(parts):
          steps.append({'count': cnt, 'complete': pop if (g > 0 and k == 0) else 0})
    else:
      steps = gen_steps(c.rng, c.rng.randrange(5, 10), max_count=4)
    restarts = gen_restarts(c.rng, len(steps))
    case = {'space': desc, 'goal': goal, 'via': via, 'pop_size': pop, 'steps': steps, 'restarts': restarts}
    measure = Measure(ci, ['obj'], p_infeasible=0.0, ties=False)
    a, feed = drive(fresh, steps, [False] * len(steps), via_object, measure)
    b, _ = drive(fresh, steps, restarts, VIAS[via], measure)
    c.traces += 2
    if live_failed(c, 'cmaes', a) or restart_raised(c, 'cmaes', case, a, b):
      continue
    told = sum(len(f[0]) for f in feed) >= pop
    c.count(1, ('cmaes', ci) if (told and any(restarts[1:])) else None, kind='designer:cmaes' + (':aligned' if aligned else ':unaligned'))
    fd = first_diff(a, b, ['sug', 'dump'])
    if fd is not None:
      i, f = fd
      # was a partially filled population buffer thrown away by a restart at or before step i?
      seen, lost = 0, False
      for j in range(i + 1):
        if restarts[j] and seen % pop != 0:
          lost = True
        seen += len(feed[j][0])
      c.prop_fail(KEY_CMA_QUEUE if lost else 'cmaes-restart-mismatch',
                  'CMAESDesigner: run with restarts differs from the live run at step %d (%s); %s' % (
                      i, f, 'a restart discarded completed trials waiting in the population buffer (pop_size %d), which dump() does not contain' % pop if lost else 'no buffered trials were involved'),
                  dict(case, step=i, field=f, live=a[i][f], restarted=b[i][f]))
    if ci == 0:
      c.sample({'cmaes-designer': {k: case[k] for k in ('space', 'pop_size', 'via')}, 'n_steps': len(steps)})


# ------------------------------------------------------------------ policy level (in-RAM supporter)
def policy_stage(c, n_cases):
  """PartiallySerializableDesignerPolicy: one policy object kept alive (keeps its designer) vs a new
  policy object per request (restores the designer from the study metadata it wrote)."""
  from vizier import pythia
  from vizier import pyvizier as vz
  from vizier._src.algorithms.policies import designer_policy as dp
  from vizier._src.algorithms.designers import grid, quasi_random
  from vizier._src.algorithms.designers.eagle_strategy import eagle_strategy
  from vizier._src.algorithms.evolution import nsga2
  import random as _random
  kinds = ['grid', 'sgrid', 'qr', 'eagle', 'nsga', 'eagle']
  for ci in range(n_cases):
    kind = kinds[ci % len(kinds)]
    desc = gen_space(c.rng, ['double', 'int', 'discrete', 'cat'], 1, 3)
    if len(set(d['name'] for d in desc)) != len(desc):
      continue
    problem = build_problem(desc)
    seed = c.rng.randrange(10 ** 6)
    if kind == 'grid':
      factory, pseed = grid.GridSearchDesigner.from_problem, None
    elif kind == 'sgrid':
      factory, pseed = grid.GridSearchDesigner.from_problem, seed
    elif kind == 'qr':
      factory, pseed = quasi_random.QuasiRandomDesigner.from_problem, seed
    elif kind == 'nsga':
      factory, pseed = (lambda p, seed=None: nsga2.NSGA2Designer(p, population_size=4, seed=seed)), seed
    else:
      factory, pseed = eagle_strategy.EagleStrategyDesigner, seed
    steps = gen_steps(c.rng, c.rng.randrange(3, 12), max_count=4)
    rebuild = gen_restarts(c.rng, len(steps))
    measure = Measure(ci, ['obj'], p_infeasible=0.0 if kind == 'nsga' else 0.1)
    # which of the active trials finish first: in id order, or in any order (a later trial of a batch alone, …)
    order = ['in-order', 'any-order', 'last-first'][(ci + ci // len(kinds)) % 3]
    if ci in (3, 4):
      # directed: the LAST trial of a batch finishes alone, the policy is rebuilt, then the rest finish
      order, rebuild = 'last-first', [True] * 5
      steps = [{'count': 3, 'complete': 0}, {'count': 1, 'complete': 1}, {'count': 1, 'complete': 2}, {'count': 2, 'complete': 1}, {'count': 1, 'complete': 2}]

    def run(rebuild_flags):
      sup = pythia.InRamPolicySupporter(copy.deepcopy(problem))
      pol, out = None, []
      for i, st in enumerate(steps):
        if pol is None or rebuild_flags[i]:
          # what PythiaServicer.Suggest does on every request
          pol = dp.PartiallySerializableDesignerPolicy(sup.study_config, sup, factory, seed=pseed)
        active = list(sup.GetTrials(status_matches=vz.TrialStatus.ACTIVE))
        if order == 'any-order':
          _random.Random(ci * 1000 + i).shuffle(active)
        elif order == 'last-first':
          active.reverse()
        for t in active[:st['complete']]:
          measure.complete(t)
        trials = sup.SuggestTrials(pol, st['count'])
        out.append({'sug': [[canon_params(t.parameters), canon_md(t.metadata)] for t in trials],
                    'dump': canon_md(sup.study_config.metadata.ns(ROOT), DUMP_DROP)})
      return out
    a = run([False] * len(steps))
    b = run(rebuild)
    c.traces += 2
    case = {'designer': kind, 'space': desc, 'policy_seed': pseed, 'steps': steps, 'policy_rebuilt_before_step': rebuild, 'completion_order': order}
    c.count(1, ('policy', ci) if any(rebuild[1:]) else None, kind='policy:' + kind + ':' + order)
    if kind == 'nsga':
      # the sampler's RandomState is not persisted (known finding evolution-restart-resets-sampler-state), so the
      # suggestions of a rebuilt NSGA-II differ; what must agree is WHICH trials reached the designer: the
      # trial counter and the number of population rows
      def nsga_view(run_out):
        out = []
        for r in run_out:
          d = dict(r['dump'])
          rows = None
          for k2, v2 in d.items():
            if k2.endswith('|values') or k2 == 'values':
              try:
                rows = json.loads(v2)['xs']['shape'][0]
              except (ValueError, KeyError, TypeError):
                rows = 'undecodable'
          seen = [v2 for k2, v2 in d.items() if k2.endswith('num_trials_seen')]
          out.append({'sug': len(r['sug']), 'dump': {'num_trials_seen': seen, 'population_rows': rows}})
        return out
      a, b = nsga_view(a), nsga_view(b)
    fd = first_diff(a, b, ['sug', 'dump'])
    if fd is not None:
      i, f = fd
      c.prop_fail('policy-rebuild-mismatch:' + kind,
                  'PartiallySerializableDesignerPolicy(%s): rebuilding the policy from study metadata changes step %d (%s): live %s, rebuilt %s' % (kind, i, f, short(a[i][f], 300), short(b[i][f], 300)),
                  dict(case, step=i, field=f, live=a[i][f], rebuilt=b[i][f]))
    if ci == 0:
      c.sample(limit=12, case={'policy-level': case})


# ------------------------------------------------------------------ the real service
class Service:
  """a study on a real SQLite-file backed VizierServicer; `restart()` = new servicer, same file"""
  n_db = 0

  def __init__(self, problem, algorithm, tmpdir):
    from vcheck import svc
    self.svc = svc
    Service.n_db += 1
    self.url = 'sqlite:///' + os.path.join(tmpdir, 'c13_%d.db' % Service.n_db)
    self.sv = svc.make_servicer(self.url)
    self.problem = problem
    self.name = svc.create_study(self.sv, spec=study_spec(problem, algorithm)).name
    self.n_requests = 0

  def restart(self):
    self.sv = self.svc.make_servicer(self.url)

  def suggest(self, count):
    """returns (list of vz.Trial in id order, error text or None)"""
    from vizier._src.pyvizier.oss import proto_converters as pc
    vsp = self.svc.vsp
    self.n_requests += 1
    op = self.sv.SuggestTrials(vsp.SuggestTrialsRequest(parent=self.name, suggestion_count=count, client_id='worker%d' % self.n_requests))
    if op.HasField('error') and op.error.message:
      return [], op.error.message
    resp = vsp.SuggestTrialsResponse.FromString(op.response.value)
    trials = [pc.TrialConverter.from_proto(t) for t in resp.trials]
    return sorted(trials, key=lambda t: t.id), None

  def complete(self, trial, measure):
    """complete in the service what `measure` decides for this trial id; returns the completed vz.Trial"""
    from vizier._src.pyvizier.oss import proto_converters as pc
    vsp = self.svc.vsp
    done = measure.complete(copy.deepcopy(trial))
    req = vsp.CompleteTrialRequest(name='%s/trials/%d' % (self.name, trial.id))
    if done.infeasible:
      req.trial_infeasible = True
      req.infeasible_reason = 'infeasible'
    else:
      req.final_measurement.CopyFrom(pc.MeasurementConverter.to_proto(done.final_measurement))
    return pc.TrialConverter.from_proto(self.sv.CompleteTrial(req))

  def designer_metadata(self):
    from vizier._src.pyvizier.oss import metadata_util
    vsp = self.svc.vsp
    spec = self.sv.GetStudy(vsp.GetStudyRequest(name=self.name)).study_spec
    return metadata_util.from_key_value_list(spec.metadata).ns(ROOT).ns('designer')


def service_run(c, sv, steps, restarts, measure):
  """drive the study: optional server restart, complete some pending trials, one SuggestTrials
  request per step (a new client id each time).  Returns per-step records."""
  recs, pending = [], []
  for i, st in enumerate(steps):
    if restarts[i]:
      sv.restart()
    completed = []
    for t in pending[:st['complete']]:
      completed.append(sv.complete(t, measure))
    pending = pending[len(completed):]
    trials, err = sv.suggest(st['count'])
    rec = {'err': err, 'sug': sorted(json.dumps(canon_params(t.parameters), sort_keys=True) for t in trials),
           'trials': trials, 'completed': completed, 'active': list(pending)}
    pending += trials
    recs.append(rec)
    if err is not None:
      break
  return recs


def d10_witness(c, tmpdir):
  """SHUFFLED_GRID_SEARCH on a 3x2 grid: can the service host it at all?"""
  desc = [{'name': 'a', 'kind': 'int', 'lo': 0, 'hi': 2}, {'name': 'b', 'kind': 'cat', 'values': ['x', 'y']}]
  sv = Service(build_problem(desc), 'SHUFFLED_GRID_SEARCH', tmpdir)
  try:
    trials, err = sv.suggest(2)
  except Exception as e:  # pylint: disable=broad-except
    trials, err = [], '%s: %s' % (type(e).__name__, e)
  c.traces += 1
  hostable = err is None and len(trials) == 2
  c.flags['shuffledGridHostable'] = hostable
  if not hostable:
    c.prop_fail(KEY_D10,
                'SHUFFLED_GRID_SEARCH cannot be hosted: the first SuggestTrials of a study fails with %r (policy_factory passes shuffle_seed= to GridSearchDesigner.from_problem(problem, seed))' % (err or 'no trials')[:300],
                {'algorithm': 'SHUFFLED_GRID_SEARCH', 'space': desc, 'request': 'SuggestTrials(count=2)', 'error': (err or '')[:500]})
  return hostable


def cmaes_host_witness(c, tmpdir):
  """CMA_ES on two DOUBLE parameters: can the service host it?  (The designer itself runs: see
  cmaes_available.)"""
  desc = [{'name': 'x', 'kind': 'double', 'lo': 0.0, 'hi': 1.0, 'scale': None},
          {'name': 'y', 'kind': 'double', 'lo': 0.0, 'hi': 1.0, 'scale': None}]
  sv = Service(build_problem(desc), 'CMA_ES', tmpdir)
  try:
    trials, err = sv.suggest(1)
  except Exception as e:  # pylint: disable=broad-except
    trials, err = [], '%s: %s' % (type(e).__name__, e)
  c.traces += 1
  hostable = err is None and len(trials) == 1
  c.flags['cmaesHostable'] = hostable
  if not hostable:
    c.prop_fail(KEY_CMA_HOST,
                'CMA_ES cannot be hosted although CMAESDesigner(problem) works: the first SuggestTrials of a study fails with %r (the policy builds the designer with factory(problem, seed=None); CMAESDesigner forwards seed=None to CMA_ES_JAX -> jax.random.PRNGKey(None))' % (err or 'no trials')[:300],
                {'algorithm': 'CMA_ES', 'space': desc, 'request': 'SuggestTrials(count=1)', 'error': (err or '')[:500]})
  return hostable


def service_grid_stage(c, n_cases, tmpdir, shuffled_ok):
  from vizier._src.algorithms.designers import grid
  reqs, cases = [], []
  for ci in range(n_cases):
    algorithm = 'SHUFFLED_GRID_SEARCH' if (shuffled_ok and ci % 2 == 1) else 'GRID_SEARCH'
    # small grids: every point is to be seen twice through the service
    while True:
      desc = gen_space(c.rng, ['int', 'discrete', 'cat', 'cat', 'double'], 1, 3)
      n = 1
      for d in desc:
        n *= 10 if d['kind'] == 'double' else (d['hi'] - d['lo'] + 1 if d['kind'] == 'int' else len(d['values']))
      if len(set(d['name'] for d in desc)) == len(desc) and 2 <= n <= 24:
        break
    problem = build_problem(desc)
    base = grid_lists(grid.GridSearchDesigner(problem.search_space), '_unshuffled_grid_values')
    names = [nm for nm, _ in base]
    steps, tot = [], 0
    while tot < 2 * n + 2:
      cnt = c.rng.choice([1, 2, 3, 5, max(1, n // 2), n - 1 or 1])
      steps.append({'count': cnt, 'complete': c.rng.randrange(0, 4)})
      tot += cnt
    restarts = [c.rng.random() < 0.4 for _ in steps]
    case = {'algorithm': algorithm, 'space': desc, 'counts': [s['count'] for s in steps], 'server_restart_before_step': restarts}
    sv = Service(problem, algorithm, tmpdir)
    measure = Measure(ci, ['obj'])
    try:
      recs = service_run(c, sv, steps, restarts, measure)
    except Exception as e:  # pylint: disable=broad-except
      recs = [{'err': '%s: %s' % (type(e).__name__, e), 'sug': [], 'trials': []}]
    c.traces += 1
    c.count(1, ('svc-grid', ci) if any(restarts) else None, kind='service:' + algorithm)
    if recs[-1]['err'] is not None:
      c.prop_fail('service-grid-suggest-fails:' + algorithm, 'SuggestTrials failed at step %d: %s' % (len(recs) - 1, recs[-1]['err'][:300]), dict(case, error=recs[-1]['err'][:500]))
      continue
    batches = [[point_in_order(json.loads(s), names) for s in r['sug']] for r in recs]
    md = canon_md(sv.designer_metadata())
    reqs.append({'op': 'balanced', 'grids': base, 'batches': batches})
    seed = None
    if algorithm == 'GRID_SEARCH':
      reqs.append({'op': 'grid_run', 'base': base, 'shuffled': None, 'seed': None, 'counts': case['counts'],
                   'restarts': [{'k': None} for _ in steps]})
    else:
      # the seed the service chose is in the metadata; the permutation it determines is the real one
      try:
        seed = int(dict(md)['grid|shuffle_seed'])
      except (KeyError, ValueError):
        seed = None
      eff = grid_lists(grid.GridSearchDesigner(problem.search_space, seed), '_grid_values')
      reqs.append({'op': 'grid_run', 'base': base, 'shuffled': eff, 'seed': seed, 'counts': case['counts'],
                   'restarts': [{'k': j} for j, _ in enumerate(steps)]})
    cases.append((case, batches, md, names, seed))
    if ci == 0:
      c.sample(limit=12, case={'service-grid': case, 'first_batches': batches[:2], 'designer_metadata': md})
  res = c.lean('C13', reqs)
  for j, (case, batches, md, names, seed) in enumerate(cases):
    judge, m = res[2 * j], res[2 * j + 1]
    for r in (judge, m):
      if 'error' in r:
        raise core.InfraError('driver C13: %s' % r)
    if not judge['ok']:
      c.prop_fail('service-grid-not-each-point-once:' + case['algorithm'],
                  '%s through the SQL service with server restarts: after request %d some grid point has been suggested at least twice more often than another (or a non-grid point was suggested)' % (case['algorithm'], judge['first_bad']),
                  dict(case, batches=batches, first_bad_batch=judge['first_bad']))
    if case['algorithm'] == 'SHUFFLED_GRID_SEARCH' and seed is None:
      c.prop_fail('service-shuffled-grid-not-shuffled',
                  'SHUFFLED_GRID_SEARCH: the designer state in study metadata has shuffle_seed None: the hosted search is the unshuffled grid',
                  dict(case, designer_metadata=md))
    # tie: the model's batches as multisets (the service creates the trials of one batch in reverse order)
    mb = [sorted(json.dumps(dict(p), sort_keys=True) for p in b) for b in m['batches']]
    rb = [sorted(json.dumps(dict(p), sort_keys=True) for p in b) for b in batches]
    if mb != rb:
      i = next((i for i, (x, y) in enumerate(zip(rb, mb)) if x != y), -1)
      c.tie_break('%s through the service vs model run' % case['algorithm'], dict(case, step=i), rb[i] if i >= 0 else rb, mb[i] if i >= 0 else mb)
    want = str(m['dump']['current_index'])
    if dict(md).get('grid|current_index') != want:
      c.tie_break('grid current_index in study metadata vs model', case, md, want)


def service_shadow_stage(c, algorithm, n_cases, tmpdir, dumps_seen):
  """QUASI_RANDOM_SEARCH / EAGLE_STRATEGY / NSGA2 / CMA_ES hosted by the SQL service (policy rebuilt
  on every request, server restarts) versus ONE local designer kept alive and fed the same trials."""
  from vizier import algorithms as vza
  from vizier._src.algorithms.designers import quasi_random, cmaes
  from vizier._src.algorithms.designers.eagle_strategy import eagle_strategy
  from vizier._src.algorithms.evolution import nsga2
  for ci in range(n_cases):
    if algorithm == 'CMA_ES':
      desc = [{'name': 'p%d' % j, 'kind': 'double', 'lo': 0.0, 'hi': c.rng.choice([1.0, 4.0]), 'scale': None} for j in range(2)]
    else:
      desc = gen_space(c.rng, ['double', 'int', 'discrete', 'cat'], 1, 3)
    if len(set(d['name'] for d in desc)) != len(desc):
      continue
    metrics = (('obj', 'MAXIMIZE'),) if algorithm != 'NSGA2' else (('m1', 'MAXIMIZE'), ('m2', 'MINIMIZE'))
    problem = build_problem(desc, metrics)
    if algorithm == 'NSGA2':
      # default population 50, first survival after 100 completed trials.  In its mutation phase
      # the designer returns one offspring per member whatever `count` says, and the service parks
      # over-delivered suggestions and serves later requests from them without asking Pythia; asking
      # for exactly one population per request keeps "one request = one policy call".
      steps = [{'count': 50, 'complete': 0}] + [{'count': 50, 'complete': 50} for _ in range(4)]
    elif algorithm == 'CMA_ES':
      aligned = ci % 2 == 0
      steps = ([{'count': 6, 'complete': 6} for _ in range(4)] if aligned else gen_steps(c.rng, 7, max_count=4))
    else:
      steps = gen_steps(c.rng, c.rng.randrange(4, 14), max_count=4)
    restarts = [c.rng.random() < 0.4 for _ in steps]
    measure = Measure(ci, [m for m, _ in metrics], p_infeasible=0.0 if algorithm in ('NSGA2', 'CMA_ES') else 0.1)
    case = {'algorithm': algorithm, 'space': desc, 'steps': steps, 'server_restart_before_step': restarts}
    sv = Service(problem, algorithm, tmpdir)
    live, recs, pending = None, [], []
    try:
      for i, st in enumerate(steps):
        if restarts[i]:
          sv.restart()
        completed = [sv.complete(t, measure) for t in pending[:st['complete']]]
        pending = pending[len(completed):]
        trials, err = sv.suggest(st['count'])
        if err is not None:
          raise RuntimeError(err)
        md = sv.designer_metadata()
        if live is None:
          # run A: a local instance with the seed the hosted designer drew from the clock
          if algorithm == 'QUASI_RANDOM_SEARCH':
            live = quasi_random.QuasiRandomDesigner.from_problem(problem, seed=int(md.ns('quasi_random')['seed']))
          elif algorithm == 'EAGLE_STRATEGY':
            live = eagle_strategy.EagleStrategyDesigner(problem, seed=int(md.ns('eagle').ns('random_designer').ns('quasi_random')['seed']))
          elif algorithm == 'NSGA2':
            live = nsga2.NSGA2Designer(problem, seed=1)
          else:
            live = cmaes.CMAESDesigner(problem)
        live.update(vza.CompletedTrials(copy.deepcopy(completed)), vza.ActiveTrials(copy.deepcopy(pending)))
        lsug = list(live.suggest(st['count']))
        rec = {'svc': sorted(json.dumps(canon_params(t.parameters), sort_keys=True) for t in trials),
               'live': sorted(json.dumps(canon_params(s.parameters), sort_keys=True) for s in lsug),
               'svc_dump': canon_md(md, DUMP_DROP), 'live_dump': canon_md(live.dump(), DUMP_DROP),
               'n_completed': len(completed)}
        if algorithm == 'NSGA2':
          rec['live_probe'] = nsga_probe(live, lsug)
          rec['svc_probe'] = nsga_probe(None, trials)
        recs.append(rec)
        pending += trials
    except Exception as e:  # pylint: disable=broad-except
      c.prop_fail('service-suggest-fails:' + algorithm, '%s through the service failed at step %d: %s: %s' % (algorithm, len(recs), type(e).__name__, str(e)[:300]), dict(case, error=str(e)[:500]))
      continue
    c.traces += 2
    c.count(1, ('svc', algorithm, ci), kind='service:' + algorithm)
    if ci == 0:
      c.sample(limit=12, case={'service-vs-live-designer': {k: case[k] for k in ('algorithm', 'space')}, 'n_steps': len(steps), 'first_batch': recs[0]['svc']})
    if algorithm == 'NSGA2':
      for i, r in enumerate(recs):
        sp = [e for e in r['svc_dump'] if e[0] != '|num_trials_seen']
        lp = [e for e in r['live_dump'] if e[0] != '|num_trials_seen']
        if sp != lp:
          c.prop_fail('nsga2-service-population-mismatch', 'NSGA2 through the service: population in study metadata after request %d differs from the live designer fed the same trials' % i,
                      dict(case, step=i, service=short(sp, 2000), live=short(lp, 2000)))
          break
        ss, ls = dict(r['svc_dump']).get('|num_trials_seen'), dict(r['live_dump']).get('|num_trials_seen')
        if ss != ls:
          c.prop_fail(KEY_EVO_SEEN if not dumps_seen else 'nsga2-service-counter-mismatch',
                      'NSGA2 through the service: after request %d the persisted trial counter is %s, the live designer fed the same trials has %s' % (i, ss, ls),
                      dict(case, step=i, service=ss, live=ls))
          break
      for i, r in enumerate(recs):
        if r['svc_probe']['phase'] != r['live_probe']['phase']:
          c.prop_fail(KEY_EVO_SEEN if not dumps_seen else 'nsga2-service-phase-mismatch',
                      'NSGA2 through the service (policy rebuilt per request): at request %d, after %d completed trials, the live designer is in phase %s but the hosted one in phase %s' % (
                          i, sum(x['n_completed'] for x in recs[:i + 1]), r['live_probe']['phase'], r['svc_probe']['phase']),
                      dict(case, step=i, live=r['live_probe'], service=r['svc_probe']))
          break
      continue
    for i, r in enumerate(recs):
      if r['svc'] != r['live'] or r['svc_dump'] != r['live_dump']:
        f = 'suggestions' if r['svc'] != r['live'] else 'state'
        key = 'service-restart-mismatch:' + algorithm
        if algorithm == 'CMA_ES':
          seen, lost = 0, False
          for j in range(i + 1):
            if j > 0 and seen % 6 != 0:
              lost = True          # every request rebuilds the designer: a partial buffer is dropped
            seen += recs[j]['n_completed']
          key = KEY_CMA_QUEUE if lost else key
        c.prop_fail(key, '%s through the SQL service (policy rebuilt per request, server restarts): %s at request %d differ from a live designer fed the same trials: service %s, live %s' % (
            algorithm, f, i, short(r['svc'] if f == 'suggestions' else r['svc_dump'], 300), short(r['live'] if f == 'suggestions' else r['live_dump'], 300)),
                    dict(case, step=i, field=f, service=r['svc'], live=r['live']))
        break


# ------------------------------------------------------------------ entry
def run(c):
  c.proof_stage()
  import tempfile
  import shutil
  from vcheck import svc  # installs the shims
  quick = c.tier == 'quick'
  tmpdir = tempfile.mkdtemp(prefix='vverif_c13_')
  try:
    import time
    walls = {}

    def timed(name, fn, *a):
      t = time.time()
      r = fn(*a)
      walls[name] = round(walls.get(name, 0.0) + time.time() - t, 2)
      return r
    shuffled_ok = timed('witness:D10', d10_witness, c, tmpdir)
    dumps_seen = timed('witness:evolution-counter', identify_evo_variant, c)
    with_cma = timed('cmaes-smoke', cmaes_available, c)
    c.flags['cmaesRunnable'] = with_cma
    timed('designer:grid', grid_designer_stage, c, 60 if quick else 600)
    timed('designer:quasi_random', quasi_random_stage, c, 30 if quick else 300)
    timed('designer:eagle', eagle_stage, c, 14 if quick else 150)
    timed('designer:nsga2', nsga_stage, c, 30 if quick else 300, dumps_seen)
    if with_cma:
      timed('designer:cmaes', cmaes_stage, c, 2 if quick else 12)
    timed('policy', policy_stage, c, 12 if quick else 80)
    timed('service:grid', service_grid_stage, c, 6 if quick else 40, tmpdir, shuffled_ok)
    timed('service:quasi_random', service_shadow_stage, c, 'QUASI_RANDOM_SEARCH', 2 if quick else 10, tmpdir, dumps_seen)
    timed('service:eagle', service_shadow_stage, c, 'EAGLE_STRATEGY', 2 if quick else 10, tmpdir, dumps_seen)
    timed('service:nsga2', service_shadow_stage, c, 'NSGA2', 1 if quick else 3, tmpdir, dumps_seen)
    if with_cma:
      cma_hosted = timed('witness:cmaes-hosted', cmaes_host_witness, c, tmpdir)
      if cma_hosted and not quick:
        timed('service:cmaes', service_shadow_stage, c, 'CMA_ES', 2, tmpdir, dumps_seen)
    c.coverage_extra['stage_wall_s'] = walls
  finally:
    shutil.rmtree(tmpdir, ignore_errors=True)
    svc.cleanup()
  return c.finish(
      level='proof',
      rule='a case = (search space, seed, batch-size/completion sequence, restart subset, serialization road); non-trivial = at least one restart after the first step AND the designer has left its trivial regime (grid with >1 point; eagle pool full = mutate/perturb phase; NSGA-II past first_survival_after; CMA-ES after >= 1 tell); service cases always count (the policy is rebuilt on every request)',
      assumptions=[
          'library RNGs (random.Random, numpy Generator/RandomState, scipy qmc.Halton, jax PRNG) are deterministic functions of their seed/state',
          'grid: the decimal str/int codec of current_index/shuffle_seed and the float values of DOUBLE grids are correspondence items (compared exactly between runs, to 1e-6 relative against the independent formula)',
          'eagle / NSGA-II / CMA-ES: load(dump(s)) ~ s is NOT proved in Lean (numeric arrays + library RNG state); it is established per run by the differential check and lifted to every restart placement by c13_restart_transparent (partial)',
          'NSGA-II: suggestions of a restarted seeded instance are not compared value by value (the property asks for population, phase and counters); the restarted run is fed the trial history of the live run',
          'eagle dump_timestamp (wall clock) is not state and is ignored',
      ])
