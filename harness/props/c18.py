"""C18 — output warping keeps the ranking of trials and always yields finite labels.

Proof stage: Props/C18.lean (ordered field, NaN = none = bottom, abstract Φ⁻¹/log1p/sqrt).
Tie: every warper component and both pipelines of
vizier/_src/algorithms/designers/gp/output_warpers.py against the Lean model
(Drivers/C18.lean) on generated label arrays: NaN positions and the ORDER TYPE exactly
(the model's order type is computed in exact rationals), values under a tolerance, aliasing.
Property stage: judged on the REAL outputs only — shape, finiteness, input untouched,
infeasible no higher than the worst feasible, ranking kept strictly by the default pipeline /
never reversed by anything, unwarp(warp(x)) ≈ x."""
import itertools
import json
import math
import struct

import numpy as np

from vcheck import core

# classes of failing inputs (known_findings are matched by these keys)
KEY_D12A = 'default-warper-nan-label-collapses-below-median'        # fix: c18-halfrank-nan
KEY_D12B = 'dynamic-range-beyond-float64-resolution'                # known finding
KEY_F32_NOISE = 'gauss-transform-float32-rank-noise'                # known finding
LAST_REVERSAL = [None]    # (|image difference|, magnitude) of the reversal judge_order reported last
KEY_OVERFLOW = 'label-magnitude-near-float64-max'                   # known finding
KEY_MARGIN = 'infeasible-margin-absorbed-at-large-magnitude'        # known finding
KEY_UNWARP_MEDIAN = 'halfrank-unwarp-threshold-is-median-of-unique-labels'   # fix: c18-halfrank-unwarp-median
KEY_UNWARP_LOOKUP = 'halfrank-unwarp-lookup-misindexed'             # fix: c18-halfrank-unwarp-lookup
KEY_GAUSS_RANK = 'transform-to-gaussian-use-rank-argsort'           # fix: c18-gaussian-use-rank

NAN = float('nan')
NINF = float('-inf')
PINF = float('inf')
RES = 2.0 ** -40        # relative gap below which float64 cannot be expected to separate labels
RTOL = 1e-9             # float64 paths
RTOL32 = 2e-4           # tfp path runs in float32


# ------------------------------------------------------------------ encoding
def ent(v):
  v = float(v)
  if v != v:
    return 'nan'
  if v == NINF:
    return '-inf'
  if v == PINF:
    return '+inf'
  p, q = v.as_integer_ratio()
  return {'b': str(struct.unpack('<Q', struct.pack('<d', v))[0]), 'p': str(p), 'q': str(q)}


def dec(b):
  if b is None or b == 'nan':
    return NAN
  return struct.unpack('<d', struct.pack('<Q', int(b)))[0]


def arr(xs):
  return np.array(xs, dtype=np.float64)[:, np.newaxis]


def jl(xs):
  """labels as JSON-able list"""
  return [('nan' if x != x else ('-inf' if x == NINF else ('+inf' if x == PINF else x))) for x in xs]


# ------------------------------------------------------------------ classes of inputs
def feasible_mask(xs):
  a = np.asarray(xs, dtype=np.float64)
  return np.isfinite(a)


def dyn_class(xs):
  """'ok' | 'resolution' (D12b) | 'overflow'.  Predicate on the input only."""
  f = sorted(set(x for x in xs if math.isfinite(x)))
  if not f:
    return 'ok'
  s = max(abs(f[0]), abs(f[-1]))
  if s > 1e250:
    return 'overflow'
  if len(f) < 2:
    return 'resolution' if (s > 1e150 or 0 < s < 1e-150) else 'ok'
  r = f[-1] - f[0]
  gap = min(b - a for a, b in zip(f, f[1:]))
  small = min((abs(v) for v in f if v != 0), default=1.0)
  if s > 1e150 or small < 1e-150 or r < 1e-150:       # squares leave the float64 range
    return 'resolution'
  if gap / max(r, s) < RES:
    return 'resolution'
  return 'ok'


def in_class(xs):
  """'ok' unless floats cannot be expected to follow the field: see dyn_class; plus the case
  of an infeasible entry whose margin `0.5*range + 1` is (nearly) absorbed by the magnitude"""
  cls = dyn_class(xs)
  if cls != 'ok':
    return cls
  f = [x for x in xs if math.isfinite(x)]
  if f and len(f) < len(xs):
    s = max(abs(min(f)), abs(max(f)))
    if s > 0 and (0.5 * (max(f) - min(f)) + 1.0) / s < RES:
      return 'resolution'
  return 'ok'


def margin_absorbed(xs):
  """the infeasible warper's bad value `min - (0.5*range + 1)` is not below `min` in float64"""
  f = [x for x in xs if math.isfinite(x)]
  if not f or len(f) == len(xs):
    return False
  mn, mx = min(f), max(f)
  return not (mn - (0.5 * (mx - mn) + 1.0) < mn)


GRID = [-3, -2, -1, 0, 1, 2, 3, 4, 5, 6]


def gen_labels(rng, tier):
  # (few distinct sizes in the quick tier: jax/tfp compile once per shape)
  sizes = [1, 1, 2, 2, 3, 3, 4, 5, 5, 6, 8, 10, 12, 15, 16, 20, 30, 45, 60]
  if tier == 'thorough':
    sizes += [7, 9, 11, 13, 14, 17, 25, 50, 70, 72, 75, 90, 120]
  elif rng.random() < 0.05:
    sizes = [72]
  n = rng.choice(sizes)
  kind = rng.choice(['grid', 'grid', 'halfgrid', 'scaled', 'scaled', 'wide', 'const', 'offset', 'mixed', 'extreme', 'twolevel'])
  if kind == 'grid':
    xs = [float(rng.choice(GRID)) for _ in range(n)]
  elif kind == 'halfgrid':
    xs = [rng.choice(GRID) * 0.5 for _ in range(n)]
  elif kind == 'scaled':
    m = rng.choice([-1.0, 1.0]) * 10.0 ** rng.uniform(-12, 12)
    xs = [m * rng.choice([1, 2, 3, 4, 5, 6, 7, 8, 9, 1.5, 2.25]) for _ in range(n)]
  elif kind == 'wide':
    xs = [rng.choice([-1.0, 1.0]) * 10.0 ** rng.uniform(-12, 12) for _ in range(n)]
  elif kind == 'const':
    c = rng.choice([0.0, 1.0, -2.5, 1e-9, 3e7, -1e12])
    xs = [c] * n
  elif kind == 'offset':
    off = rng.choice([-1.0, 1.0]) * 10.0 ** rng.randrange(3, 10)
    xs = [off + rng.choice(GRID) for _ in range(n)]
  elif kind == 'mixed':
    xs = [float(rng.choice(GRID)) for _ in range(n)]
    for _ in range(rng.randrange(1, 3)):
      xs[rng.randrange(n)] = rng.choice([-1.0, 1.0]) * 10.0 ** rng.uniform(2, 9)
  elif kind == 'twolevel':
    lo, hi = sorted(rng.sample(GRID, 2))
    xs = [float(rng.choice([lo, hi])) for _ in range(n)]
  else:  # extreme
    xs = [float(rng.choice(GRID)) for _ in range(n)]
    for _ in range(rng.randrange(1, 3)):
      xs[rng.randrange(n)] = rng.choice([1e200, -1e200, 1e-200, 1e160, -1e155, 1e30, 1e20])
  p_nan = rng.choice([0, 0, 0, 0.1, 0.3, 0.6, 1.0])
  if p_nan:
    xs = [(NAN if rng.random() < 0.7 else NINF) if rng.random() < p_nan else x for x in xs]
  return kind, xs


# ------------------------------------------------------------------ order types
def dense_ranks(vals):
  """rank vector: None for NaN, dense rank among the finite values otherwise"""
  fin = sorted(set(v for v in vals if v == v))
  pos = {v: i for i, v in enumerate(fin)}
  return [pos[v] if v == v else None for v in vals]


def order_relation(model_ord, real_vals, tol=0.0):
  """Compare the order type of the real output with the model's.
  Returns 'equal', 'coarser' (real merges classes the model separates, no reversal) or
  'different' (a reversal or a split of a model class)."""
  idx = [i for i, (m, r) in enumerate(zip(model_ord, real_vals)) if m is not None and math.isfinite(r)]
  if not idx:
    return 'equal'
  m = np.array([model_ord[i] for i in idx], dtype=np.int64)
  r = np.array([real_vals[i] for i in idx], dtype=np.float64)
  sm = np.sign(m[:, None] - m[None, :])
  dr = r[:, None] - r[None, :]
  dr[np.abs(dr) <= tol] = 0.0          # images within `tol` count as merged (float32 rounding noise)
  sr = np.sign(dr)
  if np.array_equal(sm, sr):
    return 'equal'
  if np.any(sm * sr < 0) or np.any((sm == 0) & (sr != 0)):
    return 'different'
  return 'coarser'


def close(real, model, rtol):
  scale = max([1.0] + [abs(v) for v in model if v == v and math.isfinite(v)])
  for r, m in zip(real, model):
    if (r != r) != (m != m):
      return False
    if r == r and not (abs(r - m) <= rtol * scale):
      return False
  return True


# ------------------------------------------------------------------ the real code
class Real:
  def __init__(self):
    import shim
    shim.install()
    from vizier._src.algorithms.designers.gp import output_warpers as ow
    self.ow = ow
    self.factories = {
        'default': ow.create_default_warper,
        'outlier': ow.create_warp_outliers_warper,
        'halfrank': ow.HalfRankComponent,
        'log': ow.LogWarperComponent,
        'infeasible': ow.InfeasibleWarperComponent,
        'detect': ow.DetectOutliers,
        'zscore': ow.ZScoreLabels,
        'normalize': ow.NormalizeLabels,
        'gauss': ow.TransformToGaussian,
        'gauss_rank': lambda: ow.TransformToGaussian(use_rank=True),
    }

  def warp(self, op, xs, keep=False):
    """-> dict(out=list|None, exc=name|None, alias=[problems], shape_ok=bool, warper)"""
    a = arr(xs)
    before = a.tobytes()
    w = self.factories[op]()
    # Every other call per operation uses an instance that has ALREADY warped another label array (the
    # previous input of this operation): GP designers keep one warper and call it at every suggest and
    # for every metric column, so what a warper returns must depend on its argument only.
    calls = getattr(self, '_calls', None)
    if calls is None:
      calls = self._calls = {}
      self._prev = {}
    calls[op] = calls.get(op, 0) + 1
    prev = self._prev.get(op)
    self._prev[op] = list(xs)
    self.reused = False
    if prev is not None and calls[op] % 2 == 0 and not keep:
      try:
        with np.errstate(all='ignore'):
          w.warp(arr(prev))
        self.reused = True
      except Exception:  # pylint: disable=broad-except
        w = self.factories[op]()
    res = {'out': None, 'exc': None, 'alias': [], 'shape_ok': True, 'reused_instance': self.reused}
    try:
      with np.errstate(all='ignore'):
        out = w.warp(a)
    except Exception as e:  # pylint: disable=broad-except
      res['exc'] = type(e).__name__
      if a.tobytes() != before:
        res['alias'].append('input array modified (exception path)')
      return res
    if a.tobytes() != before:
      res['alias'].append('input array modified')
    o = np.asarray(out)
    if out is a:
      res['alias'].append('returned array is the input object')
    elif isinstance(out, np.ndarray) and np.shares_memory(out, a):
      res['alias'].append('returned array shares memory with the input')
    if o.shape != a.shape:
      res['shape_ok'] = False
    res['out'] = [float(v) for v in o.reshape(-1)]
    if keep:
      res['warper'] = w
      res['raw_out'] = out
    return res

  def gauss_g(self, normalized):
    """the library part of TransformToGaussian (SoftClip then Normal quantile) applied to the
    model's normalised values — tfp numerics are trusted base, not modelled"""
    from tensorflow_probability.substrates import jax as tfp
    x = np.asarray(normalized, dtype=np.float64)
    clip = tfp.bijectors.SoftClip(low=np.array(1e-10, dtype=x.dtype), high=np.array(1 - 1e-10, dtype=x.dtype),
                                  hinge_softness=0.01)
    c = np.array(clip.forward(x))
    return [float(v) for v in np.asarray(tfp.distributions.Normal(0.0, 1).quantile(c)).reshape(-1)]


# ------------------------------------------------------------------ property predicates (REAL outputs)
def pair_signs(vals):
  v = np.asarray(vals, dtype=np.float64)
  return np.sign(v[:, None] - v[None, :])


def judge_order(xs, out, strict):
  """xs: input labels, out: real output (same length).  Only feasible entries whose image is
  finite are compared.  Returns None or a description."""
  idx = [i for i, (x, o) in enumerate(zip(xs, out)) if math.isfinite(x) and o == o]
  if len(idx) < 2:
    return None
  sx = pair_signs([xs[i] for i in idx])
  so = pair_signs([out[i] for i in idx])
  rev = np.argwhere(sx * so < 0)
  LAST_REVERSAL[0] = None
  if len(rev):
    i, j = idx[rev[0][0]], idx[rev[0][1]]
    # the LARGEST reversal decides whether it can be rounding noise
    worst = max(abs(out[idx[a]] - out[idx[b]]) for a, b in rev)
    LAST_REVERSAL[0] = (worst, max(abs(out[k]) for k in idx))
    return 'order reversed: labels %r, %r -> %r, %r' % (xs[i], xs[j], out[i], out[j])
  spl = np.argwhere((sx == 0) & (so != 0))
  if len(spl):
    i, j = idx[spl[0][0]], idx[spl[0][1]]
    # how far apart the images of EQUAL labels are at most (float32 lane noise is a few ulps; anything more is not)
    worst = max(abs(out[idx[a]] - out[idx[b]]) for a, b in spl)
    LAST_REVERSAL[0] = (worst, max(abs(out[k]) for k in idx))
    return 'equal labels %r at positions %d,%d got different images %r, %r' % (xs[i], i, j, out[i], out[j])
  if strict:
    col = np.argwhere((sx != 0) & (so == 0))
    if len(col):
      i, j = idx[col[0][0]], idx[col[0][1]]
      return 'distinct labels %r, %r collapsed onto %r' % (xs[i], xs[j], out[i])
  return None


def is_reversal(msg):
  return msg is not None and (msg.startswith('order reversed') or msg.startswith('equal labels'))


class Ctx:
  """shared state of one run"""

  def __init__(self, c):
    self.c = c
    self.real = Real()
    self.rank_fix = None     # model flag rankIgnoresNan, identified on the tree
    self.umed = None         # model flag: unwarp threshold = median used by warp


def judge_pipeline(cx, op, xs, res, kind):
  """property of a pipeline (or of the infeasible component) on real output"""
  c = cx.c
  case = {'op': op, 'labels': jl(xs), 'kind': kind}
  cls = in_class(xs)
  has_nan = any(not math.isfinite(x) for x in xs)

  def fail(key, what):
    if cls == 'overflow':
      key = KEY_OVERFLOW
    c.prop_fail(key, '%s(%s): %s' % (op, jl(xs) if len(xs) <= 12 else '%d labels' % len(xs), what),
                dict(case, real=jl(res['out']) if res['out'] is not None else None, exc=res['exc'], what=what))
  if res['exc'] is not None:
    fail('pipeline-raises', 'raised %s on an admissible label array' % res['exc'])
    return
  for a in res['alias']:
    fail('input-aliasing', a)
  if not res['shape_ok']:
    fail('shape-changed', 'output shape differs from the input shape')
  out = res['out']
  if len(out) != len(xs):
    return
  if not all(math.isfinite(o) for o in out):
    # finiteness is demanded on every input class
    fail(KEY_MARGIN if margin_absorbed(xs) else 'nonfinite-output', 'non-finite output %r' % jl(out))
    return
  feas = [o for x, o in zip(xs, out) if math.isfinite(x)]
  infeas = [o for x, o in zip(xs, out) if not math.isfinite(x)]
  if feas and infeas and max(infeas) > min(feas):
    fail('infeasible-above-feasible', 'an infeasible label is mapped to %r, above the worst feasible image %r' % (max(infeas), min(feas)))
  strict = (op in ('default', 'infeasible')) and cls == 'ok'
  msg = judge_order(xs, out, strict=(op in ('default', 'infeasible')))
  if msg is None:
    return
  rv = LAST_REVERSAL[0]
  if is_reversal(msg) and ((msg.startswith('order reversed') and cls == 'resolution') or msg.startswith('equal labels')) and \
     op == 'outlier' and rv is not None and rv[0] <= 4 * 2.0 ** -23 * max(1.0, rv[1]):
    fail(KEY_F32_NOISE, msg + ' (images within 4 float32 ulps: labels closer than 2^-40 of the range)')
  elif is_reversal(msg):
    fail('order-reversed:' + op, msg)
  elif not strict:
    fail(KEY_D12B, msg + ' (labels closer than float64 can separate after normalising by the range)')
  elif op == 'default' and has_nan and cx.rank_fix is False:
    fail(KEY_D12A, msg + ' — a NaN label is present and stats.rankdata propagates NaN')
  else:
    fail('ranking-not-strict:' + op, msg)


def judge_component(cx, op, xs, res, kind):
  """property of one component on its own: shape, aliasing, finite labels stay finite-or-NaN
  (never ±inf), no order reversal"""
  c = cx.c
  cls = in_class(xs)
  case = {'op': op, 'labels': jl(xs), 'kind': kind}

  def fail(key, what):
    if cls == 'overflow':
      key = KEY_OVERFLOW
    c.prop_fail(key, '%s(%s): %s' % (op, jl(xs) if len(xs) <= 12 else '%d labels' % len(xs), what),
                dict(case, real=jl(res['out']) if res['out'] is not None else None, exc=res['exc'], what=what))
  if res['exc'] is not None:
    fail('component-raises:' + op, 'raised %s on an admissible label array' % res['exc'])
    return
  for a in res['alias']:
    fail('input-aliasing', a)
  if not res['shape_ok']:
    fail('shape-changed', 'output shape differs from the input shape')
  out = res['out']
  if len(out) != len(xs):
    return
  if any(math.isinf(o) for o in out):
    fail(KEY_D12B if cls == 'resolution' else 'nonfinite-output', 'infinite output %r' % jl(out))
    return
  # an OBSERVED value (a finite label) is mapped to a number: a component may leave a missing entry missing (the
  # infeasible component fills those in), and DetectOutliers marks outliers as missing on purpose, but no other
  # component may turn a finite label into NaN (constants and arrays with missing entries included)
  if op not in ('detect',) and cls == 'ok':
    lost = [i for i, (x, o) in enumerate(zip(xs, out)) if math.isfinite(x) and o != o]
    if lost and not (op == 'zscore' and len(set(x for x in xs if math.isfinite(x))) == 1):
      fail('finite-label-becomes-nan:' + op, 'the finite label %r (position %d) is mapped to NaN: %r' % (xs[lost[0]], lost[0], jl(out)))
      return
  msg = judge_order(xs, out, strict=False)
  if msg is not None:
    rv = LAST_REVERSAL[0]
    # labels the float32 transform cannot separate: closer than its resolution (class `resolution`) - or EQUAL
    # (gap 0: the two positions went through different vector lanes)
    f32_noise = ((cls == 'resolution' or msg.startswith('equal labels')) and op in ('gauss', 'gauss_rank') and rv is not None and
                 rv[0] <= 4 * 2.0 ** -23 * max(1.0, rv[1]))
    if op == 'gauss_rank' and not f32_noise:
      fail(KEY_GAUSS_RANK, msg + ' — use_rank=True takes np.argsort (a permutation) for the ranks')
    elif f32_noise:
      # labels the float32 Gaussian transform cannot separate come out within a few float32 ulps of
      # each other, in an order decided by rounding: recorded, distinct from a real reversal
      fail(KEY_F32_NOISE, msg + ' (images within %g = 4 float32 ulps: labels closer than 2^-40 of the range)' % (4 * 2.0 ** -23 * max(1.0, rv[1])))
    else:
      fail('order-reversed:' + op, msg)


# ------------------------------------------------------------------ round trips
def classify_halfrank_roundtrip(x, u, fin, hr_warped, tol):
  """signature of a failing round trip through the half-rank inverse on the real code:
  x the observed label, u what came back, hr_warped the half-rank images of `fin`"""
  wx = [w for f, w in zip(fin, hr_warped) if f == x]
  if wx and abs(u - wx[0]) <= tol and abs(wx[0] - x) > tol:
    return KEY_UNWARP_MEDIAN          # the warped value came back unchanged
  if any(abs(u - f) <= tol for f in set(fin) if f != x):
    return KEY_UNWARP_LOOKUP          # another observed label came back
  return None


def roundtrip(cx, op, xs, kind):
  """unwarp(warp(x)) ≈ x on the feasible entries (real code only)"""
  c = cx.c
  real = cx.real
  fin = [x for x in xs if math.isfinite(x)]
  if len(set(fin)) < 2:
    return            # documented: constant / all-infeasible arrays are answered by shortcuts
  if op in ('halfrank', 'log') and len(fin) != len(xs):
    return            # HalfRankComponent.unwarp documents "does not support nan values"
  cls = in_class(xs)
  res = real.warp(op, xs, keep=True)
  if res['exc'] is not None or res['out'] is None or not all(o == o for o in res['out']):
    return            # judged by the warp property
  w = res['warper']
  wa = np.array(res['raw_out'], dtype=np.float64, copy=True)
  before = wa.tobytes()
  case = {'op': op + '.unwarp', 'labels': jl(xs), 'kind': kind}
  try:
    with np.errstate(all='ignore'):
      un = np.asarray(w.unwarp(wa), dtype=np.float64)
  except Exception as e:  # pylint: disable=broad-except
    key = KEY_D12B if cls != 'ok' else 'unwarp-raises:' + op
    c.prop_fail(key, '%s.unwarp(warp(%s)) raised %s' % (op, jl(xs)[:12], type(e).__name__), dict(case, exc=type(e).__name__))
    return
  c.count(1, kind='roundtrip:' + op)
  if wa.tobytes() != before:
    c.prop_fail('input-aliasing', '%s.unwarp modified its input array' % op, case)
  if un.shape != wa.shape:
    c.prop_fail('shape-changed', '%s.unwarp changed the shape' % op, case)
    return
  un = [float(v) for v in un.reshape(-1)]
  # (the infeasible warper adds an absolute margin of 1: errors are relative to max(1, |labels|))
  scale = max([1.0] + [abs(x) for x in fin])
  tol = RTOL * 10 * scale
  bad = [(i, x, u) for i, (x, u) in enumerate(zip(xs, un)) if math.isfinite(x) and not abs(u - x) <= tol]
  if not bad:
    return
  i, x, u = bad[0]
  what = '%s: unwarp(warp(x)) = %r for the observed label x = %r (labels %s)' % (op, u, x, jl(xs) if len(xs) <= 12 else '%d labels' % len(xs))
  if cls != 'ok':
    key = KEY_D12B if cls == 'resolution' else KEY_OVERFLOW
  elif op == 'default' and len(fin) != len(xs) and cx.rank_fix is False:
    key = KEY_D12A
  else:
    key = 'unwarp-roundtrip-other:' + op
    if op in ('default', 'halfrank'):
      # attribute to the half-rank inverse by its signature
      r2 = real.warp('halfrank', fin)
      if r2['exc'] is None and r2['out'] is not None and len(r2['out']) == len(fin):
        key = classify_halfrank_roundtrip(x, u, fin, r2['out'], tol) or key
  c.prop_fail(key, what, dict(case, unwarped=jl(un), failing_index=i))


# ------------------------------------------------------------------ tie with the Lean model
MODEL_OPS = ['default', 'outlier', 'halfrank', 'log', 'infeasible', 'detect', 'zscore', 'normalize', 'gauss']


def admissible(op, xs):
  """documented / structural preconditions of a component called on its own"""
  fin = [x for x in xs if math.isfinite(x)]
  if any(x == PINF for x in xs):
    return False
  if op in ('default', 'outlier', 'infeasible', 'log'):
    return True
  if op == 'halfrank':
    return len(xs) == 1 or len(fin) >= 1
  if op in ('detect', 'zscore', 'normalize'):
    return len(fin) >= 1
  if op == 'gauss':
    return len(fin) >= 1              # on its own: missing entries stay missing, observed values get numbers
  if op == 'gauss_rank':
    return len(fin) == len(xs)        # the rank option propagates NaN through scipy's rankdata (not judged)
  return True


def tie_cases(cx, cases):
  """cases: list of (kind, xs).  Runs real + model for every admissible op."""
  c = cx.c
  real = cx.real
  reqs, meta = [], []
  for kind, xs in cases:
    for op in MODEL_OPS:
      if not admissible(op, xs):
        continue
      reqs.append({'op': op, 'x': [ent(v) for v in xs], 'fix': bool(cx.rank_fix)})
      meta.append((kind, xs, op))
  answers = c.lean('C18', reqs)
  for (kind, xs, op), m in zip(meta, answers):
    cls = in_class(xs)
    res = real.warp(op, xs)
    c.traces += 1
    fin = [x for x in xs if math.isfinite(x)]
    nontrivial = len(set(fin)) < len(fin) or len(fin) < len(xs) or cls != 'ok'
    c.count(1, (op, json.dumps(jl(xs))) if nontrivial else None, kind='%s:%s' % (op, kind.split(':')[0]))
    # ---- property on the real output
    if op in ('default', 'outlier', 'infeasible'):
      judge_pipeline(cx, op, xs, res, kind)
    else:
      judge_component(cx, op, xs, res, kind)
    # ---- correspondence
    case = {'op': op, 'labels': jl(xs), 'kind': kind}
    if 'err' in m:
      c.tie_break('%s: model refuses, real answers' % op, case, res['out'] and jl(res['out']), m)
      continue
    if res['exc'] is not None or res['out'] is None or len(res['out']) != len(xs):
      if cls == 'ok':
        c.tie_break('%s: real raises / wrong length' % op, case, res['exc'], 'model answers')
      continue
    if cls != 'ok':
      # floats leave the field: only "real is a coarsening of the exact order type" is compared
      f32tol = 0.0
      if op in ('gauss', 'gauss_rank', 'outlier') and cls == 'resolution':
        fin = [abs(v) for v in res['out'] if v == v and math.isfinite(v)]
        f32tol = 4 * 2.0 ** -23 * max([1.0] + fin)      # see known finding gauss-transform-float32-rank-noise
      if op != 'detect' and order_relation(m['ord'], res['out'], f32tol) == 'different':
        c.tie_break('%s: order type (weak, beyond float resolution)' % op, case, jl(res['out']), m['ord'])
      continue
    mv = [dec(b) for b in m['vals']]
    rv = res['out']
    if [v != v for v in mv] != [v != v for v in rv]:
      c.tie_break('%s: NaN positions' % op, case, jl(rv), jl(mv))
      continue
    rel = order_relation(m['ord'], rv)
    float32 = op in ('outlier', 'gauss')
    if rel == 'different' and float32:
      # EQUAL labels whose images differ by float32 lane noise (<= 4 ulps; recorded finding
      # gauss-transform-float32-rank-noise, reported by the property stage): merged for the tie
      finv = [abs(v) for v in rv if v == v and math.isfinite(v)]
      rel = order_relation(m['ord'], rv, 4 * 2.0 ** -23 * max([1.0] + finv))
    if rel == 'different' or (rel == 'coarser' and not float32):
      c.tie_break('%s: order type' % op, case, dense_ranks(rv), m['ord'])
      continue
    if op == 'zscore' and len(set(fin)) == 1:
      # a constant array has std 0 in the field; in floats `sum/n` may miss the constant by one
      # ulp, so numpy's std is 0 or ~1e-25 depending on the summation order and the output is
      # the input or an array of equal ±1/0 values: ill-conditioned, only the order type (all
      # equal, compared above) is meaningful
      continue
    if float32 and not m['short']:
      if any(v == v for v in mv):
        gi = [i for i, v in enumerate(mv) if v == v]
        gv = real.gauss_g([mv[i] for i in gi])
        mv = list(mv)
        for i, g in zip(gi, gv):
          mv[i] = g
      ok = close(rv, mv, RTOL32)
    else:
      ok = close(rv, mv, RTOL)
    if not ok:
      c.tie_break('%s: values' % op, case, jl(rv), jl(mv))


def malformed_stream(cx):
  """inputs outside the documented preconditions: the only oracle is "refused with an error"
  (and the model's validate refuses +inf as well)"""
  c = cx.c
  real = cx.real
  bad = [('default', [1.0, PINF]), ('outlier', [PINF]), ('halfrank', [PINF, 1.0, 2.0]), ('log', [0.0, PINF]),
         ('infeasible', [NAN, PINF]), ('zscore', [NAN, NAN]), ('normalize', [NAN]), ('zscore', [NINF])]
  answers = c.lean('C18', [{'op': op, 'x': [ent(v) for v in xs]} for op, xs in bad if any(x == PINF for x in xs)])
  for a in answers:
    if 'err' not in a:
      c.tie_break('validate: model accepts +inf', {}, 'ValueError', a)
  for op, xs in bad:
    res = real.warp(op, xs)
    c.count(1, kind='malformed:' + op)
    if res['exc'] != 'ValueError':
      c.prop_fail('malformed-accepted', '%s accepted the malformed label array %s' % (op, jl(xs)), {'op': op, 'labels': jl(xs), 'real': res['out'] and jl(res['out'])})
    if res['alias']:
      c.prop_fail('input-aliasing', '%s modified a rejected input' % op, {'op': op, 'labels': jl(xs)})
  # wrong shape
  for op in ('default', 'halfrank', 'infeasible'):
    try:
      real.factories[op]().warp(np.array([1.0, 2.0, 3.0]))
      c.prop_fail('malformed-accepted', '%s accepted a 1-D label array' % op, {'op': op})
    except ValueError:
      pass
    except Exception as e:  # pylint: disable=broad-except
      c.prop_fail('malformed-accepted', '%s raised %s (not ValueError) on a 1-D array' % (op, type(e).__name__), {'op': op})


def identify_flags(cx):
  """replay the witnesses of the counterexample theorems on the real tree"""
  c = cx.c
  real = cx.real
  w = [1.0, 2.0, 3.0, 4.0, 5.0, NAN]
  r = real.warp('halfrank', w)
  cx.rank_fix = bool(r['out'] is not None and r['out'][0] == r['out'][0] and r['out'][1] == r['out'][1])
  c.flags['rankIgnoresNan'] = cx.rank_fix
  r = real.warp('halfrank', [1.0, 2.0, 3.0, 3.0, 3.0], keep=True)
  u = None
  try:
    u = [float(v) for v in np.asarray(r['warper'].unwarp(np.array(r['raw_out'], copy=True))).reshape(-1)]
    cx.umed = abs(u[1] - 2.0) < 1e-9
  except Exception:  # pylint: disable=broad-except
    cx.umed = False
  c.flags['unwarpUsesWarpMedian'] = cx.umed
  # the model variants agree with the theorems' witnesses
  ans = c.lean('C18', [
      {'op': 'default', 'x': [ent(v) for v in w], 'fix': False},
      {'op': 'default', 'x': [ent(v) for v in w], 'fix': True},
      {'op': 'halfrank_rt', 'x': [ent(v) for v in [1, 2, 3, 3, 3]], 'fix': True, 'umed': False},
      {'op': 'halfrank_rt', 'x': [ent(v) for v in [1, 2, 3, 3, 3]], 'fix': True, 'umed': True}])
  c.add_obligation('witness D12a: as-written model collapses labels 1,2 of [1,2,3,4,5,nan]; documented ranks do not',
                   ans[0]['ord'][0] == ans[0]['ord'][1] == ans[0]['ord'][5] and ans[1]['ord'] == [1, 2, 3, 4, 5, 0],
                   json.dumps([ans[0]['ord'], ans[1]['ord']]))
  rt0 = [dec(b) for b in ans[2]['vals']]
  rt1 = [dec(b) for b in ans[3]['vals']]
  c.add_obligation('witness unwarp threshold: as-written model returns 8/3-like image for label 2 of [1,2,3,3,3]; intended returns 2',
                   rt0[1] != 2.0 and rt1 == [1.0, 2.0, 3.0, 3.0, 3.0], json.dumps([rt0, rt1]))
  # the real half-rank inverse against the model variant of this tree
  real_rt = u
  model_rt = rt1 if cx.umed else rt0
  if real_rt is not None and not close(real_rt, model_rt, 1e-6):
    c.tie_break('halfrank unwarp witness', {'labels': [1, 2, 3, 3, 3], 'umed': cx.umed}, real_rt, model_rt)


def parse_labels(lst):
  return [NAN if v == 'nan' else (NINF if v == '-inf' else (PINF if v == '+inf' else float(v))) for v in lst]


def load_corpus():
  import glob
  import os
  out = []
  for p in sorted(glob.glob(os.path.join(core.VERIF, 'corpus', 'C18', '*.json'))):
    try:
      out.append(('corpus:' + os.path.basename(p)[:-5], parse_labels(json.load(open(p))['labels'])))
    except (ValueError, KeyError):
      continue
  return out


def witnesses(cx):
  """corpus: witnesses of the findings, replayed first"""
  cases = load_corpus() + [('witness', [1.0, 2.0, 3.0, 4.0, 5.0, NAN]), ('witness', [1.0, 2.0, 3.0, 4.0, 1e200]),
           ('witness', [3.0, 3.0, NAN]), ('witness', [NINF, 1.0, 2.0]), ('witness', [1.0, 2.0, 3.0, 3.0, 3.0]),
           ('witness', [1e6 + i for i in range(1, 11)]), ('witness', [5.0]), ('witness', [NAN, NAN]),
           ('witness', [NAN, 1.0]), ('witness', [1e-300, 2e-300, 3e-300]), ('witness', [0.0, 1e-13, 1.0]),
           ('witness', [2.0, 2.0, 2.0, 2.0]), ('witness', [1.0, 2.0]), ('witness', [NINF]),
           ('witness', [float(i % 7) for i in range(72)]), ('witness', [float(i) for i in range(15)] + [-1e9]),
           ('witness', [NINF, 1e30]),
           # witness of gauss-transform-float32-rank-noise
           ('witness', [-881476702798.924, 2.613916198468886e-08, 0.0017522791160902889, -2406288900.926524, 0.07037440628430233,
                        -0.054504263624107804, 0.10970676389441507, -10329149.452675166, 3.278047261141125, 0.23999717310627178,
                        8.129167731334837e-07, -3.803827739086638e-10, -2493067220.3294663, 2099585817.7125893, 257.57797532506464])]
  tie_cases(cx, cases)
  for kind, xs in cases:
    for op in ('default', 'halfrank', 'log', 'infeasible'):
      roundtrip(cx, op, xs, kind)
  # labels whose range overflows float64: a finding of its own, checked on two witnesses only
  for op, xs in (('default', [-1e308, 1e308]), ('outlier', [1e308, 1e308, 0.0])):
    res = cx.real.warp(op, xs)
    cx.c.count(1, ('overflow', op), kind='overflow:' + op)
    judge_pipeline(cx, op, xs, res, 'overflow')


def gauss_rank_stream(cx, n):
  """TransformToGaussian(use_rank=True): property only (the rank option is not modelled)"""
  for _ in range(n):
    k = cx.c.rng.choice([2, 3, 5, 8])
    xs = [float(v) for v in cx.c.rng.sample(range(-5, 20), k)]
    res = cx.real.warp('gauss_rank', xs)
    cx.c.count(1, kind='gauss_rank')
    judge_component(cx, 'gauss_rank', xs, res, 'distinct-grid')


def linear_stream(cx, n):
  """LinearOutputWarper (jax, float32): warp is increasing, lands in [low, high], unwarp inverts"""
  c = cx.c
  import jax.numpy as jnp
  ow = cx.real.ow
  reqs, keep = [], []
  for _ in range(n):
    k = c.rng.choice([2, 3, 5, 8])
    xs = [float(c.rng.choice(GRID)) * c.rng.choice([1.0, 0.5, 100.0]) for _ in range(k)]
    if len(set(xs)) < 2:
      continue
    lo, hi = c.rng.choice([(-2.0, 2.0), (0.0, 1.0), (-1.0, 3.0)])
    y = arr(xs)
    before = y.tobytes()
    lw = ow.LinearOutputWarper.from_obs(jnp.asarray(y), low_bound=lo, high_bound=hi)
    w = np.asarray(lw.warp(y), dtype=np.float64).reshape(-1)
    u = np.asarray(lw.unwarp(lw.warp(y)), dtype=np.float64).reshape(-1)
    c.count(1, kind='linear')
    c.traces += 1
    case = {'op': 'linear', 'labels': xs, 'lo': lo, 'hi': hi}
    if y.tobytes() != before:
      c.prop_fail('input-aliasing', 'LinearOutputWarper modified its input', case)
    msg = judge_order(xs, [float(v) for v in w], strict=True)
    if msg:
      c.prop_fail('order-reversed:linear' if is_reversal(msg) else 'ranking-not-strict:linear', 'LinearOutputWarper: ' + msg, case)
    scale = max(abs(x) for x in xs)
    if not np.all(np.abs(u - np.array(xs)) <= 1e-5 * max(1.0, scale)):
      c.prop_fail('unwarp-roundtrip-other:linear', 'LinearOutputWarper.unwarp(warp(y)) != y: %r' % u.tolist(), case)
    reqs.append({'op': 'linear', 'x': [ent(v) for v in xs], 'lo': [str(int(lo * 2)), '2'], 'hi': [str(int(hi * 2)), '2']})
    keep.append((case, [float(v) for v in w]))
  for (case, w), m in zip(keep, c.lean('C18', reqs)):
    mv = [dec(b) for b in m['vals']]
    if not close(w, mv, 1e-5) or order_relation(m['ord'], w) != 'equal':
      c.tie_break('linear: values/order', case, w, mv)


def small_scope(cx, maxlen, ops=('default', 'outlier')):
  """all label arrays of length <= maxlen over {nan, -1, 0, 1, 2, 1e6}: property on the real code"""
  alph = [NAN, -1.0, 0.0, 1.0, 2.0, 1e6]
  n = 0
  for k in range(1, maxlen + 1):
    for xs in itertools.product(alph, repeat=k):
      xs = list(xs)
      for op in ops:
        if op == 'outlier' and k == maxlen and maxlen > 3:
          continue          # (tfp path is ~6x slower: one length less)
        res = cx.real.warp(op, xs)
        judge_pipeline(cx, op, xs, res, 'small-scope')
        n += 1
      if k <= 4:
        roundtrip(cx, 'default', xs, 'small-scope')
  cx.c.count(n, kind='small-scope<=%d' % maxlen)
  cx.c.coverage_extra['small_scope'] = 'all label arrays of length <= %d over {nan,-1,0,1,2,1e6} through the default pipeline (outlier pipeline: one length less when > 3), real code, property predicates' % maxlen


def designer_stage(c):
  """Where the designers APPLY the transformations (gp_ucb_pe / gp_bandit `_trials_to_data`): with several
  objective metrics each metric's labels are warped on their own, and the inverse the designer keeps for a
  metric (used by sample() / predict()) must give back that metric's observed values."""
  import numpy as np
  from vizier import algorithms as vza
  from vizier import pyvizier as vz
  from vizier._src.algorithms.designers import gp_bandit, gp_ucb_pe
  rng = c.rng

  def problem(names):
    p = vz.ProblemStatement()
    p.search_space.root.add_float_param('x', 0.0, 1.0)
    p.search_space.root.add_float_param('y', 0.0, 1.0)
    for nm in names:
      p.metric_information.append(vz.MetricInformation(nm, goal=rng.choice([vz.ObjectiveMetricGoal.MAXIMIZE, vz.ObjectiveMetricGoal.MINIMIZE])))
    return p
  n_cases = 4 if c.tier == 'quick' else 16
  for ci in range(n_cases):
    nm = [1, 2, 3, 2][ci % 4]
    names = ['m%d' % i for i in range(nm)]
    scales = [10.0 ** rng.randrange(-3, 4) for _ in names]
    ntr = rng.randrange(4, 11)
    trials = []
    for i in range(ntr):
      t = vz.Trial(id=i + 1, parameters={'x': rng.random(), 'y': rng.random()})
      t.complete(vz.Measurement(metrics={n_: sc * rng.gauss(0, 1) for n_, sc in zip(names, scales)}))
      trials.append(t)
    case = {'metrics': names, 'scales': scales, 'values': [[t.final_measurement.metrics[n_].value for n_ in names] for t in trials]}
    for dname in (['gp_ucb_pe'] if nm > 1 else ['gp_ucb_pe', 'gp_bandit']):
      c.count(1, ('designer-warp', ci, dname) if nm > 1 else None, kind='designer:%s:%d-metrics' % (dname, nm))
      c.traces += 1
      try:
        if dname == 'gp_ucb_pe':
          d = gp_ucb_pe.VizierGPUCBPEBandit(problem(names))
          d.update(vza.CompletedTrials(trials), vza.ActiveTrials())
          completed = d._all_completed_trials                          # pylint: disable=protected-access
          raw = np.asarray(d._converter.to_xy(completed).labels.unpad(), dtype=np.float64)      # pylint: disable=protected-access
          warped = np.asarray(d._trials_to_data(completed).labels.unpad(), dtype=np.float64)    # pylint: disable=protected-access
          warpers = list(d._output_warpers)                              # pylint: disable=protected-access
        else:
          d = gp_bandit.VizierGPBandit(problem(names))
          raw = np.asarray(d._converter.to_xy(trials).labels.unpad(), dtype=np.float64)         # pylint: disable=protected-access
          warped = np.asarray(d._warp_labels(raw), dtype=np.float64)       # pylint: disable=protected-access
          warpers = [d._output_warper]                                     # pylint: disable=protected-access
      except Exception as e:  # pylint: disable=broad-except
        c.prop_fail('designer-warp-raised:' + dname, '%s could not warp the labels of %d completed trials with %d metrics: %s: %s' % (dname, ntr, nm, type(e).__name__, e), case)
        continue
      if warped.shape != raw.shape or len(warpers) != nm:
        c.prop_fail('designer-warp-shape:' + dname, '%s: warped labels have shape %s for observed shape %s, %d inverse(s) kept for %d metrics' % (
            dname, warped.shape, raw.shape, len(warpers), nm), case)
        continue
      for m in range(nm):
        col, w = raw[:, m], warped[:, m]
        if not np.all(np.isfinite(w)):
          c.prop_fail('designer-warp-not-finite:' + dname, '%s: warped labels of metric %d are not finite: %s' % (dname, m, w.tolist()), case)
        if dense_ranks(col.tolist()) != dense_ranks(w.tolist()):
          c.prop_fail('designer-warp-ranking:' + dname, '%s: the ranking of the observed values of metric %d changed: observed %s warped %s' % (dname, m, col.tolist(), w.tolist()), case)
        back = np.asarray(warpers[m].unwarp(w[:, np.newaxis]), dtype=np.float64).reshape(-1)
        tol = 1e-4 * max(1.0, float(np.max(np.abs(col))))
        if not np.allclose(back, col, rtol=1e-4, atol=tol):
          c.prop_fail('designer-unwarp-wrong-metric:' + dname,
                      '%s with %d metrics: the inverse kept for metric %d does not return the observed values of that metric: observed %s, unwarp(warp) %s' % (
                          dname, nm, m, [float('%.6g' % v) for v in col], [float('%.6g' % v) for v in back]), dict(case, metric=m))


def run(c):
  c.proof_stage()
  cx = Ctx(c)
  identify_flags(cx)
  if getattr(c, 'replay_path', None):
    d = json.load(open(c.replay_path))
    case = d.get('case', d)
    xs = parse_labels(case['labels'])
    tie_cases(cx, [('replay', xs)])
    for op in ('default', 'halfrank', 'log', 'infeasible'):
      roundtrip(cx, op, xs, 'replay')
    if str(case.get('op', '')).startswith('gauss_rank') and admissible('gauss_rank', xs):
      judge_component(cx, 'gauss_rank', xs, cx.real.warp('gauss_rank', xs), 'replay')
    return c.finish(level='proof', rule='replay of ' + c.replay_path)
  witnesses(cx)
  malformed_stream(cx)
  n = 200 if c.tier == 'quick' else 2500
  cases = [gen_labels(c.rng, c.tier) for _ in range(n)]
  for i in range(0, len(cases), 500):
    tie_cases(cx, cases[i:i + 500])
  for kind, xs in cases:
    for op in ('default', 'halfrank', 'log', 'infeasible'):
      roundtrip(cx, op, xs, kind)
  for kind, xs in cases[:6]:
    c.sample({'kind': kind, 'labels': jl(xs)[:20]})
  gauss_rank_stream(cx, 40 if c.tier == 'quick' else 400)
  linear_stream(cx, 30 if c.tier == 'quick' else 300)
  small_scope(cx, 3 if c.tier == 'quick' else 5)
  designer_stage(c)

  def search():
    small_scope(cx, 4 if c.tier == 'quick' else 5)
    extra = [gen_labels(c.rng, c.tier) for _ in range(10 * n if c.tier == 'quick' else n)]
    for kind, xs in extra:
      for op in ('default', 'outlier', 'halfrank', 'log', 'infeasible', 'detect', 'zscore', 'normalize'):
        if admissible(op, xs):
          res = cx.real.warp(op, xs)
          (judge_pipeline if op in ('default', 'outlier', 'infeasible') else judge_component)(cx, op, xs, res, kind)
      roundtrip(cx, 'default', xs, kind)

  return c.finish(
      level='proof',
      rule='label arrays of length 1-60 (thorough: -120) from an integer/half-integer grid (ties), one-magnitude scaled grids '
           '(1e-12..1e12), per-entry log-uniform magnitudes, constants, large offsets, grids with outliers up to 1e200, with NaN/-inf '
           'injected at rates 0/0.1/0.3/0.6/1; non-trivial = has a tie, an infeasible entry, or a dynamic range beyond float64 '
           'resolution; every case goes through both pipelines and each admissible component (real + model)',
      assumptions=['the library numerics (scipy norm.ppf, numpy log1p/sqrt, tfp SoftClip/Normal.quantile) are abstract monotone functions in the theorems; the tie compares values under rtol 1e-9 (float64 paths) / 2e-4 (tfp float32 path) and order types exactly',
                   'strict ranking is demanded of the real code only when the smallest gap between distinct labels exceeds 2^-40 of max(range, magnitude) and squares stay inside float64 (otherwise finding D12b); weak monotonicity and finiteness are demanded always',
                   'components are called on their own only within their documented/structural preconditions (HalfRank/DetectOutliers/ZScore/Normalize: at least one finite label; TransformToGaussian: no NaN); the malformed stream checks refusal',
                   'unwarp round trips are judged on arrays with at least two distinct feasible labels (constant / all-infeasible arrays are answered by documented shortcuts that are not invertible), tolerance 1e-8 * max(1, label magnitude)'],
      search=search)
