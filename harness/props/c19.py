"""C19 — the acquisition optimiser returns in-bounds candidates, the best it evaluated.

Proof stage: Props/C19.lean (top-count merge = global stable top-k; count; bounds; no
placeholder; not worse than the prior for the variant that merges the priors + counterexample
for the code as written; determinism).

Tie: the REAL `VectorizedOptimizer` (production path: jitted, `use_fori=True`; eagle and random
strategies; one jit per configuration, reused over score functions and seeds) with a score
function that reports every batch it is asked to score through an ordered `jax.debug.callback`
(and, for eagle, a recording `projection_factory` — a constructor argument of the strategy
factory — that reports the candidates before and after `clip`).  The recorded stream is replayed
through the Lean `optimize` (replay strategy, score = the recorded table): the model's trace must
equal the recorded batches (padding mask), `project` must equal the recorded clip, and the model's
result must equal the real result as multisets of (features, reward) up to ties at the selection
threshold (exact ordered equality is counted separately).  Floats travel as integer keys of the
IEEE total order, which is the order `lax.top_k` uses.

Property stage (on the REAL result): exactly `count` candidates; Lean `inBounds` (continuous in
[0,1], categorical < arity, padded dimensions 0); every reported score equals the score function
re-evaluated by the harness at the returned features (1e-5); not worse than the best prior; same
seed (also through a freshly built optimiser) => identical candidates; different seeds => different
batches."""
import collections
import json
import os
import time

import numpy as np

from vcheck import core

KEY_PRIOR = 'prior-outscores-every-evaluated-candidate'
KEY_COUNT = 'count-exceeds-number-of-evaluations'
KEY_RANDOM_PAD = 'random-strategy-ignores-feature-padding'
KEY_NAN = 'fewer-than-count-rewards-rank-above-minus-inf'

FAMILIES = ['interior', 'corner', 'catonly', 'plateau', 'nonfinite', 'peak', 'allnan', 'mostlyneginf']
NEG_NAN = np.array([0xffc00000], dtype=np.uint32).view(np.float32)[0]
POS_NAN = np.array([0x7fc00000], dtype=np.uint32).view(np.float32)[0]
TOL = 1e-5

_E = {}


def env():
  """Import jax / vizier lazily (after the shims)."""
  if _E:
    return _E
  import shim
  shim.install()
  import jax
  import jax.numpy as jnp
  from vizier import pyvizier as vz
  from vizier.pyvizier import converters
  from vizier.pyvizier.converters import padding
  from vizier._src.algorithms.optimizers import vectorized_base as vb
  from vizier._src.algorithms.optimizers import eagle_strategy as es
  from vizier._src.algorithms.optimizers import random_vectorized_optimizer as rvo
  _E.update(jax=jax, jnp=jnp, vz=vz, converters=converters, padding=padding, vb=vb, es=es, rvo=rvo)
  return _E


# ------------------------------------------------------------------ float keys
def fkey(a):
  """IEEE total-order key (order isomorphic, exact): -NaN < -inf < ... < -0 < +0 < ... < inf < +NaN."""
  a = np.asarray(a)
  if a.dtype == np.float32:
    b = a.view(np.uint32).astype(np.int64)
    return np.where(b & 0x80000000, -(b & 0x7fffffff) - 1, b)
  a = a.astype(np.float64)
  b = a.view(np.uint64)
  neg = (b >> np.uint64(63)).astype(bool)
  mag = (b & np.uint64(0x7fffffffffffffff)).astype(np.int64)
  return np.where(neg, -mag - 1, mag)


def fkey1(x, dtype):
  return int(fkey(np.array([x], dtype=dtype))[0])


def canon_feat(c):
  """-0.0 and +0.0 are the same feature value."""
  return np.asarray(c) + np.zeros((), dtype=np.asarray(c).dtype)


def feat_json(c_row, k_row):
  return {'c': [int(v) for v in fkey(canon_feat(c_row))], 'k': [int(np.uint32(np.int32(v))) for v in k_row]}


def entry_tuple(e):
  return (tuple(e['c']), tuple(e['k']), e['r'])


# ------------------------------------------------------------------ configurations
class Cfg(object):

  def __init__(self, strategy, nc, ar, pad, batch, count, evals, n_prior, label=''):
    self.strategy, self.nc, self.ar, self.pad = strategy, nc, list(ar), pad
    self.batch, self.count, self.evals, self.n_prior, self.label = batch, count, evals, n_prior, label

  def desc(self):
    return {'strategy': self.strategy, 'n_continuous': self.nc, 'arities': self.ar, 'padding': self.pad,
            'batch': self.batch, 'count': self.count, 'max_evaluations': self.evals, 'n_prior': self.n_prior,
            'label': self.label}


def eagle_pool(nc, ncat, batch):
  n = nc + ncat
  pool = min(10 + int(0.5 * n + n ** 1.2), 100)
  return -(-pool // batch) * batch


def core_configs():
  p = eagle_pool
  return [
      Cfg('eagle', 2, [3], None, 5, 3, p(2, 1, 5) + 15, 0, 'mixed'),
      Cfg('eagle', 3, [2, 4, 3], 'pow2', 5, 8, p(3, 3, 5) + 10, 3, 'padded,count>batch,priors'),
      Cfg('eagle', 0, [5, 2], None, 4, 2, p(0, 2, 4) + 8, 0, 'categorical-only'),
      Cfg('eagle', 5, [], 'pow2', 7, 1, p(5, 0, 7) + 14, 2, 'continuous-only,padded,priors'),
      Cfg('eagle', 1, [2], None, 2, 2, 2, 3, 'one-iteration,priors-not-all-evaluated'),
      Cfg('random', 2, [3], None, 5, 3, 20, 3, 'mixed,priors'),
      Cfg('random', 0, [2, 5, 3], None, 3, 5, 12, 0, 'categorical-only,count>batch'),
      Cfg('random', 3, [], 'pow2', 4, 2, 12, 0, 'padded-continuous'),
      Cfg('random', 1, [2, 3, 4], 'pow2', 3, 4, 12, 2, 'padded-categorical,priors'),
      # two optimisers in ONE process whose categorical blocks have the same shape (2 features, largest arity 4) but
      # different arities, the later one with FEWER categories: anything remembered per shape instead of per search
      # space (a memoised sampler table, a jit cache keyed too coarsely) shows as an index outside the second space
      Cfg('eagle', 1, [4, 4], None, 5, 4, p(1, 2, 5) + 10, 0, 'same-shape-pair:first'),
      Cfg('eagle', 1, [2, 4], None, 5, 4, p(1, 2, 5) + 10, 0, 'same-shape-pair:second-has-fewer-categories'),
  ]


# parameter names whose alphabetical order is NOT the declaration order (the feature columns follow the
# declaration; anything that lists the parameters by name must still attach sizes to the right columns)
_CNAMES = ['opt', 'act', 'zz', 'bn', 'm', 'k']


def cname(j):
  return _CNAMES[j] if j < len(_CNAMES) else 'q%d' % j


def xname(i):
  return 'x%d' % ((3 * i + 2) % 7) if i < 7 else 'x%d' % i


def gen_config(rng):
  while True:
    nc = rng.randrange(0, 6)
    ncat = rng.randrange(0, 4)
    if nc + ncat > 0:
      break
  ar = [rng.randrange(2, 6) for _ in range(ncat)]
  strategy = rng.choice(['eagle', 'eagle', 'random'])
  pad = rng.choice([None, 'pow2', 'pow2', 'mult10'])
  batch = rng.choice([2, 3, 5, 7])
  count = rng.choice([1, 2, 3, 4, 5, 6, 7, 8])
  if strategy == 'eagle':
    pool = eagle_pool(nc, ncat, batch)
    evals = rng.choice([batch, pool, pool + 2 * batch, pool + 4 * batch + 1])
  else:
    evals = rng.choice([batch, 3 * batch, 5 * batch + 1])
  n_iter = (evals - 1) // batch + 1
  if count > n_iter * batch:
    evals = -(-count // batch) * batch
  n_prior = rng.choice([0, 0, 1, 3, 5])
  return Cfg(strategy, nc, ar, pad, batch, count, evals, n_prior, 'generated')


# ------------------------------------------------------------------ the real optimiser, instrumented
class Runner(object):
  """One jitted real optimiser (one configuration) + recorder."""

  def __init__(self, cfg, use_fori=True):
    E = env()
    jax, jnp, vz, padding, vb, es, rvo = E['jax'], E['jnp'], E['vz'], E['padding'], E['vb'], E['es'], E['rvo']
    self.cfg = cfg
    self.rec = {'score': [], 'proj': []}
    problem = vz.ProblemStatement(metric_information=[vz.MetricInformation(name='obj', goal=vz.ObjectiveMetricGoal.MAXIMIZE)])
    for i in range(cfg.nc):
      problem.search_space.root.add_float_param(xname(i), 0.0, 10.0)
    for j, a in enumerate(cfg.ar):
      problem.search_space.root.add_categorical_param(cname(j), [str(v) for v in range(a)])
    ptype = {None: padding.PaddingType.NONE, 'pow2': padding.PaddingType.POWERS_OF_2,
             'mult10': padding.PaddingType.MULTIPLES_OF_10}[cfg.pad]
    sched = padding.PaddingSchedule(num_trials=ptype, num_features=ptype)
    self.problem = problem
    self.conv = E['converters'].TrialToModelInputConverter.from_problem(problem, padding_schedule=sched)
    empty = self.conv.to_features([])
    self.ncp, self.nkp = int(empty.continuous.shape[-1]), int(empty.categorical.shape[-1])
    self.fdtype = np.dtype(np.asarray(empty.continuous.padded_array).dtype)
    self.layout = {'nCont': cfg.nc, 'nContPad': self.ncp, 'arities': cfg.ar, 'nCatPad': self.nkp}
    self.maxcat = max(cfg.ar + [1])
    rec = self.rec

    def cb_score(c, k, r):
      rec['score'].append((np.array(c), np.array(k), np.array(r)))

    def cb_proj(pc, pk, qc, qk):
      rec['proj'].append((np.array(pc), np.array(pk), np.array(qc), np.array(qk)))

    class RecordingProjection(vb.Projection):
      """DefaultProjection + report of its input and output (constructor hook of the eagle factory)."""

      def __init__(self, converter):
        self._inner = es.DefaultProjection(converter)

      def __call__(self, x):
        y = self._inner(x)
        jax.debug.callback(cb_proj, x.continuous, x.categorical, y.continuous, y.categorical, ordered=True)
        return y

    nc, ar, maxcat = cfg.nc, cfg.ar, self.maxcat

    def body(params, c, k):
      cr = c[..., :nc]
      kr = k[..., :len(ar)]
      zero = jnp.zeros(c.shape[:-1], dtype=c.dtype)
      if ar:
        idx = jnp.clip(kr, 0, maxcat - 1)
        tsum = jnp.sum(params['table'][jnp.arange(len(ar)), idx], axis=-1).astype(c.dtype)
      else:
        tsum = zero
      quad = -jnp.sum((cr - params['center']) ** 2, axis=-1) if nc else zero
      lin = jnp.sum(cr * params['sign'], axis=-1) if nc else zero
      interior = quad + tsum
      corner = lin + tsum
      catonly = tsum
      # plateau: the score of the candidate snapped to a grid of step 1/4 (many exact ties; the snapping is
      # exact arithmetic on the inputs, so re-evaluation cannot fall on the other side of a step)
      crq = jnp.floor(cr * 4.0) / 4.0
      plateau = (-jnp.sum((crq - params['center']) ** 2, axis=-1) if nc else zero) + jnp.floor(tsum * 2.0) / 2.0
      if nc:
        lo_reg, hi_reg = cr[..., 0] < 0.2, cr[..., 0] > 0.75
      else:
        lo_reg, hi_reg = kr[..., 0] == 1, kr[..., 0] == 0
      nanv = jnp.broadcast_to(params['nanval'], interior.shape)
      nonfinite = jnp.where(hi_reg, -jnp.inf, jnp.where(lo_reg, nanv, interior))
      dist = zero
      if nc:
        dist = dist + jnp.sum((cr - params['peak_c']) ** 2, axis=-1)
      if ar:
        dist = dist + jnp.sum(kr != params['peak_k'], axis=-1).astype(c.dtype)
      peak = -50.0 * dist
      allnan = nanv
      # -inf except on a thin region (an acquisition function with a large infeasible region): fewer
      # than `count` evaluations are finite, many tie at -inf with the never-evaluated placeholders
      thin = (cr[..., 0] < 0.08) if nc else (kr[..., 0] == 1)
      mostlyneginf = jnp.where(thin, interior + 1.0, -jnp.inf)
      return jnp.stack([interior, corner, catonly, plateau, nonfinite, peak, allnan, mostlyneginf])[params['mode']]

    def make_score(params):
      def score(x, seed):
        del seed
        c, k = x.continuous.padded_array, x.categorical.padded_array
        r = body(params, c, k)
        jax.debug.callback(cb_score, c, k, r, ordered=True)
        return r
      return score

    if cfg.strategy == 'eagle':
      fac = es.VectorizedEagleStrategyFactory(projection_factory=RecordingProjection)
    else:
      fac = rvo.random_strategy_factory
    self.build_error = None
    try:
      self.opt = vb.VectorizedOptimizerFactory(strategy_factory=fac, max_evaluations=cfg.evals,
                                               suggestion_batch_size=cfg.batch, use_fori=use_fori)(self.conv)
    except Exception as e:  # pylint: disable=broad-except
      self.build_error = e
      return
    opt, count = self.opt, cfg.count
    # the optimiser's own notion of the real dimensions (the padding mask it applies): equals the layout
    # unless the strategy overrides it (RandomVectorizedStrategy declares the padded widths as real)
    self.code_layout = dict(self.layout)
    try:
      onc, onk = int(opt.n_feature_dimensions.continuous), int(opt.n_feature_dimensions.categorical)
      if (onc, onk) != (cfg.nc, len(cfg.ar)):
        self.code_layout = {'nCont': onc, 'nContPad': self.ncp, 'arities': cfg.ar + [1] * max(0, onk - len(cfg.ar)), 'nCatPad': self.nkp}
    except Exception:  # pylint: disable=broad-except
      pass
    self.n_iter = (cfg.evals - 1) // cfg.batch + 1
    if cfg.n_prior:
      self.fn = jax.jit(lambda seed, params, pf: opt(make_score(params), count=count, seed=seed, prior_features=pf))
    else:
      self.fn = jax.jit(lambda seed, params: opt(make_score(params), count=count, seed=seed))
    self.rescore = jax.jit(body)

  # -- inputs
  def gen_params(self, rng, family, nan_sign=None):
    cfg = self.cfg
    dt = self.fdtype.type
    center = np.array([rng.choice([0.5, rng.random(), 0.25, 0.8]) for _ in range(cfg.nc)], dtype=dt)
    sign = np.array([rng.choice([-1.0, 1.0]) for _ in range(cfg.nc)], dtype=dt)
    table = np.zeros((max(len(cfg.ar), 1), self.maxcat), dtype=dt)
    for j, a in enumerate(cfg.ar):
      vals = [rng.choice([0.0, 0.25, 0.5, 1.0]) for _ in range(a)]     # few levels: ties between categories
      table[j, :a] = vals
    peak_c = np.array([round(rng.uniform(0.05, 0.95), 2) for _ in range(cfg.nc)], dtype=dt)
    peak_k = np.array([rng.randrange(a) for a in cfg.ar], dtype=np.int32)
    if nan_sign is None:
      nan_sign = rng.choice(['-', '+'])
    nanval = (NEG_NAN if nan_sign == '-' else POS_NAN).astype(dt)
    return {'mode': np.int32(FAMILIES.index(family)), 'center': center, 'sign': sign, 'table': table,
            'peak_c': peak_c, 'peak_k': peak_k, 'nanval': nanval}, {'family': family, 'nan_sign': nan_sign}

  def gen_priors(self, rng, params, family):
    """Prior trials (feasible points of the problem); for 'peak' the score is peaked at one of them."""
    E = env()
    cfg = self.cfg
    pts = []
    which = rng.randrange(cfg.n_prior)
    for t in range(cfg.n_prior):
      if family == 'peak' and t == which:
        cs = [float(v) for v in params['peak_c']]
        ks = [int(v) for v in params['peak_k']]
      else:
        cs = [round(rng.random(), 2) for _ in range(cfg.nc)]
        ks = [rng.randrange(a) for a in cfg.ar]
      pts.append({'c': cs, 'k': ks})
    return self.priors_from_points(pts), pts

  def priors_from_points(self, pts):
    E = env()
    trials = []
    for pt in pts:
      d = {xname(i): 10.0 * v for i, v in enumerate(pt['c'])}
      d.update({cname(j): str(v) for j, v in enumerate(pt['k'])})
      trials.append(E['vz'].Trial(parameters=d))
    return self.conv.to_features(trials)

  # -- one real execution
  def run(self, seed_int, params, pf=None):
    E = env()
    jax = E['jax']
    self.rec['score'].clear()
    self.rec['proj'].clear()
    key = jax.random.PRNGKey(seed_int)
    try:
      res = self.fn(key, params, pf) if self.cfg.n_prior else self.fn(key, params)
      jax.block_until_ready(res)
      jax.effects_barrier()
    except Exception as e:  # pylint: disable=broad-except
      return {'error': e}
    calls = list(self.rec['score'])
    out = {'rewards': np.array(res.rewards), 'cont': np.array(res.features.continuous),
           'cat': np.array(res.features.categorical), 'prior_call': None}
    if self.cfg.n_prior:
      out['prior_call'] = calls[0]
      calls = calls[1:]
    out['batches'] = calls
    out['proj'] = list(self.rec['proj'])
    return out


def result_entries(out):
  c, k, r = out['cont'], out['cat'], out['rewards']
  rk = fkey(r)
  return [dict(feat_json(c[i, 0], k[i, 0]), r=int(rk[i])) for i in range(r.shape[0])]


def batch_entries(call):
  c, k, r = call
  rk = fkey(r)
  return [dict(feat_json(c[i], k[i]), r=int(rk[i])) for i in range(r.shape[0])]


def model_request(runner, out, pf, seeded):
  """The recorded stream as a request for the Lean `optimize` (replay strategy + recorded table)."""
  cfg = runner.cfg
  dt = runner.fdtype
  table, seen = [], set()
  batches = [batch_entries(b) for b in out['batches']]
  prior_entries = batch_entries(out['prior_call']) if out['prior_call'] is not None else []
  for e in [x for b in batches for x in b] + prior_entries:
    kf = (tuple(e['c']), tuple(e['k']))
    if kf not in seen:
      seen.add(kf)
      table.append(e)
  # the model's score is a function of the features: the same features scored twice must carry the same reward
  by_feat = {}
  for e in [x for b in batches for x in b] + prior_entries:
    by_feat.setdefault((tuple(e['c']), tuple(e['k'])), set()).add(e['r'])
  out['score_bitwise_reproducible'] = all(len(v) == 1 for v in by_feat.values())
  if cfg.strategy == 'eagle' and len(out['proj']) == len(out['batches']):
    raw = [[feat_json(p[2][i, 0], p[3][i, 0]) for i in range(p[2].shape[0])] for p in out['proj']]
  else:
    raw = [[{'c': e['c'], 'k': e['k']} for e in b] for b in batches]
  priors = None
  if pf is not None:
    pc, pk = np.asarray(pf.continuous.padded_array), np.asarray(pf.categorical.padded_array)
    priors = {'rows': [feat_json(pc[i], pk[i]) for i in range(pc.shape[0])],
              'vc': int(np.asarray(pf.continuous._original_shape)[0]),       # pylint: disable=protected-access
              'vk': int(np.asarray(pf.categorical._original_shape)[0])}      # pylint: disable=protected-access
  return {'op': 'optimize', 'layout': runner.code_layout, 'zero': fkey1(0.0, dt), 'ph': fkey1(-np.inf, dt),
          'miss': fkey1(-np.inf, dt) - 12345, 'count': cfg.count, 'seeded': bool(seeded), 'raw': raw, 'table': table,
          'priors': priors}, batches, prior_entries


def same_up_to_ties(real, model, pool, placeholder=None):
  """Multisets of (features, reward) equal except for the choice among entries tied at the threshold;
  a never-evaluated placeholder is not an admissible choice where the model keeps an evaluated entry."""
  if sorted(e[2] for e in real) != sorted(e[2] for e in model):
    return False
  if placeholder is not None and sum(1 for e in real if e == placeholder) > sum(1 for e in model if e == placeholder):
    return False
  if not model:
    return True
  thr = min(e[2] for e in model)
  if collections.Counter(e for e in real if e[2] > thr) != collections.Counter(e for e in model if e[2] > thr):
    return False
  at_real = collections.Counter(e for e in real if e[2] == thr)
  at_pool = collections.Counter(e for e in pool if e[2] == thr)
  return all(at_pool[e] >= n for e, n in at_real.items())


def close(a, b):
  a, b = float(a), float(b)
  if np.isnan(a) or np.isnan(b):
    return np.isnan(a) and np.isnan(b)
  if np.isinf(a) or np.isinf(b):
    return a == b
  return abs(a - b) <= TOL * max(1.0, abs(b))


# ------------------------------------------------------------------ variant identification (witness replays)
def identify_variants(c):
  """Replay the witnesses of the known deviations on the real code; report them; set the model flags."""
  rng = c.rng
  # (1) c19_not_worse_than_prior_counterexample: score peaked at a prior point, batches elsewhere
  w = c.lean('C19', [{'op': 'witness'}])[0]
  if not (w['asWritten'] == [1] and w['fixed'] == [10]):
    c.tie_break('model witness', {}, None, w)
  r = Runner(Cfg('random', 2, [], None, 5, 1, 10, 1, 'witness:prior'))
  params, _ = r.gen_params(rng, 'peak')
  params['peak_c'] = np.array([0.3, 0.7], dtype=r.fdtype)
  E = env()
  pf = r.conv.to_features([E['vz'].Trial(parameters={xname(0): 3.0, xname(1): 7.0})])
  out = r.run(7, params, pf)
  if 'error' in out:
    raise core.InfraError('witness run failed: %r' % (out['error'],))
  prior_score = float(out['prior_call'][2][0])
  best = float(np.max(out['rewards']))
  merged = close(best, prior_score) and bool(np.allclose(out['cont'][int(np.argmax(out['rewards'])), 0], [0.3, 0.7], atol=1e-6))
  c.flags['priorsEnterBest'] = merged
  c.traces += 1
  if not merged:
    c.prop_fail(KEY_PRIOR,
                'VectorizedOptimizer (random strategy, count=1, 10 evaluations) seeded with the prior point (0.3, 0.7) whose score is %.4g returned a best candidate of score %.4g: prior features are scored but never merged into the best results' % (prior_score, best),
                {'config': r.cfg.desc(), 'prior': [0.3, 0.7], 'prior_score': prior_score, 'returned_rewards': out['rewards'].tolist(),
                 'returned_features': out['cont'][:, 0].tolist(), 'model_witness': w})
  # (2) count larger than the number of evaluations
  r2 = Runner(Cfg('eagle', 2, [3], None, 5, 8, 5, 0, 'witness:count>evaluations'))
  params2, _ = r2.gen_params(rng, 'interior')
  out2 = r2.run(3, params2)
  if 'error' in out2:
    refused = isinstance(out2['error'], ValueError)
    c.flags['countAboveEvaluations'] = 'refused' if refused else 'error:' + type(out2['error']).__name__
    if not refused:
      c.prop_fail('count-exceeds-evaluations-crash', 'count=8 with 5 evaluations raised %r' % (out2['error'],), {'config': r2.cfg.desc()})
  else:
    nph = int(np.sum(np.isneginf(out2['rewards']) & np.all(out2['cont'][:, 0] == 0, axis=-1)))
    c.flags['countAboveEvaluations'] = 'placeholders'
    c.traces += 1
    if nph:
      c.prop_fail(KEY_COUNT,
                  'count=8 but only 5 evaluations: %d of the 8 returned candidates are zero-feature placeholders with reward -inf (the score function gives %.4g at zeros)' % (
                      nph, float(np.asarray(r2.rescore(params2, np.zeros((1, r2.ncp), r2.fdtype), np.zeros((1, r2.nkp), np.int32)))[0])),
                  {'config': r2.cfg.desc(), 'rewards': out2['rewards'].tolist(), 'features': out2['cont'][:, 0].tolist()})


# ------------------------------------------------------------------ one configuration
def run_config(c, ci, cfg, n_seeds, families, state, use_fori=True):
  rng = c.rng
  t0 = time.time()
  runner = Runner(cfg, use_fori=use_fori)
  desc = cfg.desc()
  if runner.build_error is not None:
    c.prop_fail('optimizer-construction-fails', 'building the optimiser raised %r' % (runner.build_error,), {'config': desc})
    return
  padded = (runner.ncp > cfg.nc) or (runner.nkp > len(cfg.ar))
  jobs = []
  for fam in families:
    if fam == 'peak' and not cfg.n_prior:
      continue
    for s in range(n_seeds):
      params, pdesc = runner.gen_params(rng, fam)
      pf, pts = runner.gen_priors(rng, params, fam) if cfg.n_prior else (None, None)
      seed = rng.randrange(1 << 30)
      jobs.append((fam, pdesc, params, pf, pts, seed))
  judge_jobs(c, ci, runner, jobs, state)
  c.dist['compile+run seconds cfg%d' % ci] = round(time.time() - t0, 1)
  return runner


def judge_jobs(c, ci, runner, jobs, state):
  """Run the real optimiser on every job, replay the recorded streams through the model, judge."""
  cfg = runner.cfg
  desc = cfg.desc()
  padded = (runner.ncp > cfg.nc) or (runner.nkp > len(cfg.ar))
  reqs, metas = [], []
  first_batches = {}
  for (fam, pdesc, params, pf, pts, seed) in jobs:
    case = {'config': desc, 'score': pdesc, 'seed': seed, 'priors': pts,
            'params': {k: np.asarray(v).tolist() for k, v in params.items() if k != 'nanval'}}
    out = runner.run(seed, params, pf)
    c.count(1, kind='%s:%s' % (cfg.strategy, fam))
    if 'error' in out:
      if cfg.strategy == 'random' and padded:
        c.prop_fail(KEY_RANDOM_PAD, 'random strategy on a padded layout (%d->%d continuous, %d->%d categorical) raised %s: %s' % (
            cfg.nc, runner.ncp, len(cfg.ar), runner.nkp, type(out['error']).__name__, str(out['error'])[:160]), case)
        state['random_pad'] = 'crash'
      else:
        c.prop_fail('optimizer-raises', 'the optimiser raised %r' % (out['error'],), case)
      continue
    c.traces += 1
    # --- same seed => identical candidates (same compiled optimiser)
    again = runner.run(seed, params, pf)
    if 'error' in again or not (np.array_equal(again['rewards'], out['rewards'], equal_nan=True) and
                                np.array_equal(again['cont'], out['cont'], equal_nan=True) and np.array_equal(again['cat'], out['cat'])):
      c.prop_fail('same-seed-different-result', 'two calls with the same seed and score function returned different candidates', case)
    if out['batches']:
      first_batches.setdefault(fam, []).append((seed, out['batches'][0][0].tobytes() + out['batches'][0][1].tobytes()))
    seeded = c.flags.get('priorsEnterBest', False)
    req, batches, prior_entries = model_request(runner, out, pf, seeded)
    reqs.append(req)
    metas.append((case, out, params, pf, batches, prior_entries, fam))
    if len(c.samples) < 3 and fam in ('interior', 'peak'):
      c.sample({'config': desc, 'score': pdesc, 'seed': seed, 'real_rewards': out['rewards'].tolist(),
                'real_features': out['cont'][:, 0].tolist(), 'real_categorical': out['cat'][:, 0].tolist(),
                'n_batches': len(out['batches'])})
  # different seeds => different batches (only meaningful with a continuous dimension)
  if cfg.nc > 0:
    for fam, lst in first_batches.items():
      seeds = set(s for s, _ in lst)
      if len(seeds) > 1 and len(set(b for _, b in lst)) == 1:
        c.prop_fail('different-seeds-same-batches', 'different seeds produced identical first batches', {'config': desc, 'family': fam, 'seeds': sorted(seeds)})
  if not reqs:
    return
  models = c.lean('C19', reqs)
  # the Lean property predicate on the real results and on everything that was scored
  chk_reqs = []
  for (case, out, params, pf, batches, prior_entries, fam) in metas:
    feats = [{'c': e['c'], 'k': e['k']} for e in result_entries(out)]
    feats += [{'c': e['c'], 'k': e['k']} for b in batches for e in b]
    chk_reqs.append({'op': 'check', 'layout': runner.layout, 'zero': fkey1(0.0, runner.fdtype), 'one': fkey1(1.0, runner.fdtype), 'feats': feats})
  proj_reqs, proj_real = [], []
  for (case, out, params, pf, batches, prior_entries, fam) in metas:
    if out['proj']:
      pre = [feat_json(p[0][i, 0], p[1][i, 0]) for p in out['proj'] for i in range(p[0].shape[0]) if not np.any(np.isnan(p[0][i, 0]))]
      post = [feat_json(p[2][i, 0], p[3][i, 0]) for p in out['proj'] for i in range(p[0].shape[0]) if not np.any(np.isnan(p[0][i, 0]))]
      proj_reqs.append({'op': 'project', 'zero': fkey1(0.0, runner.fdtype), 'one': fkey1(1.0, runner.fdtype), 'pre': pre})
      proj_real.append((case, post))
  # the specification IsTopK (c19_topk, c19_isTopKB_iff) on the REAL result against everything the real
  # score function was asked (+ the seed pool of the variant of this tree)
  top_reqs = []
  for (case, out, params, pf, batches, prior_entries, fam) in metas:
    ph = fkey1(-np.inf, runner.fdtype)
    allv = [e for b in batches for e in b]
    if pf is not None and c.flags.get('priorsEnterBest'):
      nvalid = min(req_valid(pf))
      allv = allv + [dict(e, r=(e['r'] if i < nvalid else ph)) for i, e in enumerate(prior_entries)]
    zf = {'c': [fkey1(0.0, runner.fdtype)] * runner.ncp, 'k': [0] * runner.nkp, 'r': ph}
    top_reqs.append({'op': 'istopk', 'count': cfg.count, 'all': allv + [zf] * cfg.count, 'res': result_entries(out)})
  tops = c.lean('C19', top_reqs)
  if os.environ.get('C19_DEBUG'):
    json.dump(top_reqs, open('/tmp/c19_top.json', 'w'))
  checks = c.lean('C19', chk_reqs)
  projs = c.lean('C19', proj_reqs) if proj_reqs else []
  for (case, post), m in zip(proj_real, projs):
    if m.get('post') != post:
      bad = next((i for i, (a, b) in enumerate(zip(m.get('post', []), post)) if a != b), None)
      c.tie_break('eagle projection (clip 0 1)', dict(case, first_diff=bad), post[bad] if bad is not None else None,
                  m.get('post', [None])[bad] if bad is not None else m)
  for (case, out, params, pf, batches, prior_entries, fam), m, chk, top in zip(metas, models, checks, tops):
    if 'error' in m or 'error' in chk or 'error' in top:
      raise core.InfraError('driver: %s %s %s' % (m.get('error'), chk.get('error'), top.get('error')))
    cfgc = runner.cfg
    real = [entry_tuple(e) for e in result_entries(out)]
    mres = [entry_tuple(e) for e in m['res']]
    # ---------------- tie
    if not m['foldAgrees']:
      c.tie_break('optimize vs foldl updateBest (model-internal)', case, None, m['res'])
    mtrace = [[entry_tuple(e) for e in b] for b in m['trace']]
    rtrace = [[entry_tuple(e) for e in b] for b in batches]
    repro = out['score_bitwise_reproducible']
    if (mtrace != rtrace) if repro else ([[e[:2] for e in b] for b in mtrace] != [[e[:2] for e in b] for b in rtrace]):
      c.tie_break('scored batches (padding mask of suggestions)', case,
                  {'n': len(rtrace), 'first': rtrace[0][:2] if rtrace else None}, {'n': len(mtrace), 'first': mtrace[0][:2] if mtrace else None})
    if len(out['batches']) != runner.n_iter or any(b[2].shape[0] != cfgc.batch for b in out['batches']):
      c.tie_break('number/size of scored batches', case, [int(b[2].shape[0]) for b in out['batches']], [cfgc.batch] * runner.n_iter)
    ph = fkey1(-np.inf, runner.fdtype)
    zeros_feat = (tuple([fkey1(0.0, runner.fdtype)] * runner.ncp), tuple([0] * runner.nkp))
    placeholder = zeros_feat + (ph,)
    msc = [entry_tuple(e) for e in m['scoredPriors']]
    if pf is not None:
      # model's masked prior rows == what the real code handed to the score function
      if [e[:2] for e in msc] != [entry_tuple(e)[:2] for e in prior_entries]:
        c.tie_break('prior features as scored (padding mask of priors)', case, [entry_tuple(e)[:2] for e in prior_entries][:2], [e[:2] for e in msc][:2])
    pool = [e for b in mtrace for e in b] + (msc if c.flags.get('priorsEnterBest') else []) + [placeholder] * cfgc.count
    exact = (real == mres)
    if not out['score_bitwise_reproducible']:
      # the same point scored in two batches of different shape differs in the last bit: the recorded
      # table is not a function; the result comparison would compare rounding, not the merge
      state['not_reproducible'] = state.get('not_reproducible', 0) + 1
    else:
      state['exact'] += int(exact)
      state['compared'] += 1
      if not exact and not same_up_to_ties(real, mres, pool, placeholder):
        c.tie_break('best results (top-count merge)', case, real[:4], mres[:4])
    # ---------------- property stage on the real result
    all_eval = [e for b in rtrace for e in b]
    n_above = sum(1 for e in all_eval if e[2] > ph)
    n_at_or_above = sum(1 for e in all_eval if e[2] >= ph)
    ties = len(set(e[2] for e in all_eval)) < len(all_eval)
    nontrivial = ties or cfgc.count > cfgc.batch or pf is not None or padded or fam in ('nonfinite', 'allnan', 'mostlyneginf')
    c.count(0, (ci, fam, case['seed']) if nontrivial else None)
    n_res = out['rewards'].shape[0]
    if out['rewards'].shape != (cfgc.count,) or out['cont'].shape != (cfgc.count, 1, runner.ncp) or out['cat'].shape != (cfgc.count, 1, runner.nkp):
      c.prop_fail('wrong-number-of-candidates', 'asked for %d candidates, got rewards %s features %s / %s' % (
          cfgc.count, out['rewards'].shape, out['cont'].shape, out['cat'].shape), case)
    inb = chk['inBounds']
    for i in range(n_res):
      if not inb[i]:
        cont_i, cat_i = out['cont'][i, 0].tolist(), out['cat'][i, 0].tolist()
        pad_leak = any(v != 0 for v in cont_i[cfgc.nc:]) or any(v != 0 for v in cat_i[len(cfgc.ar):])
        if cfgc.strategy == 'random' and padded and pad_leak:
          c.prop_fail(KEY_RANDOM_PAD, 'random strategy: padded dimensions leak into the returned features: continuous %s (real dims: %d), categorical %s (real dims: %d)' % (
              cont_i, cfgc.nc, cat_i, len(cfgc.ar)), dict(case, candidate=i))
          state['random_pad'] = 'leak'
        elif real[i][2] <= ph and n_above < cfgc.count and pf is not None and (
            np.any(np.isnan(out['cont'][i, 0])) or
            (len(cfgc.ar) and all(int(v) == -1 for v in out['cat'][i, 0][:len(cfgc.ar)]))):
          # the rows that pad the prior trials up to the padded count carry the fill values of the converter: NaN in
          # the continuous block, -1 in the categorical block (all a categorical-only space has)
          c.prop_fail(KEY_NAN, 'a padded prior row (fill values: NaN continuous / -1 categorical features) is returned', dict(case, candidate=i))
        else:
          c.prop_fail('candidate-out-of-bounds' + ('-padding-leak' if pad_leak else ''),
                      'returned candidate %d is out of bounds: continuous %s categorical %s (layout %s)' % (i, cont_i, cat_i, runner.layout),
                      dict(case, candidate=i))
        break
    # every scored candidate satisfies the hypothesis of c19_in_bounds
    if not all(chk['inBounds'][n_res:]):
      j = chk['inBounds'][n_res:].index(False)
      flat = [e for b in batches for e in b]
      if not (cfgc.strategy == 'random' and padded):
        c.tie_break('strategy delivers in-bounds, masked candidates (hypothesis of c19_in_bounds)', dict(case, scored_index=j), flat[j], None)
    # reported score == score function at the returned features
    resc = np.asarray(runner.rescore(params, out['cont'][:, 0], out['cat'][:, 0]))
    for i in range(n_res):
      if close(out['rewards'][i], resc[i]):
        continue
      is_ph = (real[i] == placeholder) and real[i] not in set(all_eval)
      total_evals = len(all_eval)
      if is_ph and total_evals < cfgc.count:
        key = KEY_COUNT
      elif is_ph and n_at_or_above >= cfgc.count:
        # enough evaluated candidates rank at least as high as the placeholder (ties at -inf): the
        # merge must keep those, not the never-evaluated zero row
        key = 'placeholder-kept-over-evaluated-candidates'
      elif is_ph and n_above < cfgc.count:
        key = KEY_NAN
      elif real[i][2] <= ph and n_above < cfgc.count and pf is not None and c.flags.get('priorsEnterBest'):
        key = KEY_NAN          # a masked prior row (reward forced to -inf) survived
      else:
        key = 'reported-score-differs-from-score-function'
      c.prop_fail(key, 'candidate %d is reported with score %r but the score function gives %r at its features %s / %s (%d evaluations, %d of them rank above -inf, count=%d)' % (
          i, float(out['rewards'][i]), float(resc[i]), out['cont'][i, 0].tolist(), out['cat'][i, 0].tolist(), total_evals, n_above, cfgc.count),
                  dict(case, candidate=i))
      break
    # the returned candidates are a top-`count` selection of what was evaluated
    if not top['isTopK']:
      c.prop_fail('result-not-top-count-of-evaluated',
                  'the returned (features, reward) pairs are not `count` of the evaluated pairs (with multiplicity) dominating the rest: returned rewards %s' % (
                      out['rewards'].tolist(),), case)
    # theorem c19_no_placeholder on the real result
    if n_above >= cfgc.count and any(e[2] <= ph for e in real):
      c.prop_fail('placeholder-despite-enough-evaluations', 'at least count evaluations rank above -inf but an entry of reward <= -inf was returned', case)
    # every returned pair is an evaluated pair (or a seed-pool entry)
    pool_set = set(pool) | set(msc) | set(all_eval) | set(entry_tuple(e) for e in prior_entries)
    stray = [e for e in real if e not in pool_set]
    if stray:
      c.prop_fail('returned-pair-never-evaluated', 'a returned (features, reward) pair was never produced by the score function', dict(case, pair=stray[0]))
    # not worse than the best prior
    if pf is not None and out['prior_call'] is not None:
      vc, vk = req_valid(pf)
      nvalid = min(vc, vk)
      pr = out['prior_call'][2][:nvalid]
      if nvalid:
        pk = fkey(pr)
        bi = int(np.argmax(pk))
        best_prior_key, best_prior = int(pk[bi]), float(pr[bi])
        best_res_key = max(e[2] for e in real)
        best_res = float(out['rewards'][int(np.argmax(fkey(out['rewards'])))])
        worse = best_res_key < best_prior_key and not (np.isfinite(best_prior) and np.isfinite(best_res) and best_res >= best_prior - TOL * max(1.0, abs(best_prior)))
        if worse:
          best_eval_key = max([e[2] for e in all_eval] or [ph])
          key = KEY_PRIOR if best_eval_key < best_prior_key else 'result-worse-than-best-prior-other'
          c.prop_fail(key, 'best returned score %r is worse than the score %r of prior %d (best evaluated candidate: key %d vs prior key %d)' % (
              best_res, best_prior, bi, best_eval_key, best_prior_key), dict(case, prior_index=bi))


def replay(c, path, state):
  """./check C19 --replay <file>: re-run the recorded failing input on the real code and judge it again
  (the witnesses of the known deviations are replayed by identify_variants on every run)."""
  d = json.load(open(path))
  case = d.get('case', d)
  cf = case.get('config') if isinstance(case, dict) else None
  if not cf or 'params' not in case:
    c.notes.append('replay %s: a witness case, replayed by identify_variants' % path)
    return
  cfg = Cfg(cf['strategy'], cf['n_continuous'], cf['arities'], cf['padding'], cf['batch'], cf['count'],
            cf['max_evaluations'], cf['n_prior'], 'replay')
  runner = Runner(cfg)
  if runner.build_error is not None:
    c.prop_fail('optimizer-construction-fails', 'building the optimiser raised %r' % (runner.build_error,), {'config': cfg.desc()})
    return
  dt = runner.fdtype
  pj = case['params']
  nan_sign = case.get('score', {}).get('nan_sign', '-')
  params = {'mode': np.int32(pj['mode']), 'center': np.asarray(pj['center'], dtype=dt).reshape(cfg.nc),
            'sign': np.asarray(pj['sign'], dtype=dt).reshape(cfg.nc), 'table': np.asarray(pj['table'], dtype=dt),
            'peak_c': np.asarray(pj['peak_c'], dtype=dt).reshape(cfg.nc),
            'peak_k': np.asarray(pj['peak_k'], dtype=np.int32).reshape(len(cfg.ar)),
            'nanval': (NEG_NAN if nan_sign == '-' else POS_NAN).astype(dt)}
  pts = case.get('priors')
  pf = runner.priors_from_points(pts) if (cfg.n_prior and pts) else None
  fam = case.get('score', {}).get('family', FAMILIES[int(pj['mode'])])
  judge_jobs(c, 0, runner, [(fam, case.get('score', {}), params, pf, pts, int(case['seed']))], state)


def req_valid(pf):
  return (int(np.asarray(pf.continuous._original_shape)[0]),      # pylint: disable=protected-access
          int(np.asarray(pf.categorical._original_shape)[0]))     # pylint: disable=protected-access


def fresh_rebuild_determinism(c, cfg):
  """A freshly constructed and freshly compiled optimiser must reproduce the candidates of the same seed."""
  rng = c.rng
  a, b = Runner(cfg), Runner(cfg)
  params, pdesc = a.gen_params(rng, 'interior')
  pf = a.gen_priors(rng, params, 'interior')[0] if cfg.n_prior else None
  seed = rng.randrange(1 << 30)
  o1, o2 = a.run(seed, params, pf), b.run(seed, params, pf)
  c.count(2, kind='fresh-rebuild-determinism')
  if 'error' in o1 or 'error' in o2:
    return
  c.traces += 2
  if not (np.array_equal(o1['rewards'], o2['rewards'], equal_nan=True) and np.array_equal(o1['cont'], o2['cont'], equal_nan=True) and
          np.array_equal(o1['cat'], o2['cat'])):
    c.prop_fail('same-seed-different-result', 'two freshly built optimisers called with the same seed and score function returned different candidates',
                {'config': cfg.desc(), 'seed': seed, 'score': pdesc, 'first': o1['rewards'].tolist(), 'second': o2['rewards'].tolist()})


def production_jit_stage(c):
  """The way the GP designers call the optimiser: `eqx.filter_jit(optimizer)(score_fn, ...)` - the optimiser OBJECT
  (its strategy, sampler and projection as static fields) is part of the compilation cache key.  Two studies in one
  process with the same numbers of features but different arities, the same score-function object: the second must
  be optimised over ITS categories."""
  E = env()
  jax, jnp, vz, vb, es = E['jax'], E['jnp'], E['vz'], E['vb'], E['es']
  try:
    import equinox as eqx
  except Exception as e:  # pylint: disable=broad-except
    c.notes.append('equinox not importable: %r' % (e,))
    return

  def score(x, seed=None):
    del seed
    a = jnp.asarray(x.continuous.padded_array, dtype=jnp.float32)
    b = jnp.asarray(x.categorical.padded_array, dtype=jnp.float32)
    return a.reshape(a.shape[0], -1).sum(-1) + 0.1 * b.reshape(b.shape[0], -1).sum(-1)      # one reward per candidate
  for pair in ([[5, 2], [2, 5]], [[4, 4, 3], [2, 2, 3]]):
    for ar in pair:
      problem = vz.ProblemStatement(metric_information=[vz.MetricInformation(name='obj', goal=vz.ObjectiveMetricGoal.MAXIMIZE)])
      problem.search_space.root.add_float_param('x', 0.0, 1.0)
      for j, a in enumerate(ar):
        problem.search_space.root.add_categorical_param(cname(j), [str(v) for v in range(a)])
      conv = E['converters'].TrialToModelInputConverter.from_problem(problem)
      opt = vb.VectorizedOptimizerFactory(strategy_factory=es.VectorizedEagleStrategyFactory(), max_evaluations=60, suggestion_batch_size=10)(conv)
      res = eqx.filter_jit(opt)(score, count=4, seed=jax.random.PRNGKey(3))
      cat = np.asarray(res.features.categorical.padded_array if hasattr(res.features.categorical, 'padded_array') else res.features.categorical)
      cat = cat.reshape(cat.shape[0], -1)[:, :len(ar)]
      c.traces += 1
      c.count(1, ('production-jit', tuple(ar)), kind='production-jit')
      badcols = [j for j, a in enumerate(ar) if np.any(cat[:, j] < 0) or np.any(cat[:, j] >= a)]
      if badcols:
        c.prop_fail('categorical-index-out-of-range:production-jit',
                    'eqx.filter_jit(optimizer)(score) for a study with categorical arities %s (after a study with arities %s in the same process) returned category indices %s for feature %d' % (
                        ar, pair[0], cat[:, badcols[0]].tolist(), badcols[0]),
                    {'arities': ar, 'earlier_study_arities': pair[0], 'categorical': cat.tolist()})


def lbfgsb_stage(c):
  """L-BFGS-B optimiser (not a top-k of evaluated batches; property stage only)."""
  E = env()
  jax, jnp = E['jax'], E['jnp']
  try:
    from vizier._src.algorithms.optimizers import lbfgsb_optimizer as lo
  except Exception as e:  # pylint: disable=broad-except
    c.notes.append('lbfgsb optimiser not importable: %r' % (e,))
    return
  for nc, pad, count in [(3, 'pow2', 2), (2, None, 1)]:
    r = Runner(Cfg('random', nc, [], pad, 5, count, 5, 0, 'lbfgsb'))
    opt = lo.LBFGSBOptimizerFactory(random_restarts=6, maxiter=12)(r.conv)
    center = np.array([0.3, 0.8, 0.5][:nc], dtype=r.fdtype)
    score = lambda x, seed, center=center, nc=nc: -jnp.sum((x.continuous.padded_array[..., :nc] - center) ** 2, axis=-1)
    outs = []
    for rep in range(2):
      res = opt(score, count=count, seed=jax.random.PRNGKey(11))
      outs.append((np.array(res.rewards), np.array(res.features.continuous), np.array(res.features.categorical)))
    rew, cont, cat = outs[0]
    case = {'optimizer': 'LBFGSB', 'n_continuous': nc, 'padding': pad, 'count': count}
    c.count(2, ('lbfgsb', nc, pad), kind='lbfgsb')
    c.traces += 2
    if rew.shape != (count,) or cont.shape != (count, 1, r.ncp):
      c.prop_fail('lbfgsb-wrong-number-of-candidates', 'asked for %d got %s' % (count, rew.shape), case)
      continue
    if not (np.all(cont >= 0) and np.all(cont <= 1) and np.all(cont[..., nc:] == 0)):
      c.prop_fail('lbfgsb-out-of-bounds', 'features %s' % cont.tolist(), case)
    resc = -np.sum((cont[:, 0, :nc] - center) ** 2, axis=-1)
    if not all(close(a, b) for a, b in zip(rew, resc)):
      c.prop_fail('lbfgsb-reported-score-differs', 'reported %s, score function gives %s' % (rew.tolist(), resc.tolist()), case)
    if not all(np.array_equal(x, y, equal_nan=True) for x, y in zip(outs[0], outs[1])):
      c.prop_fail('lbfgsb-same-seed-different-result', 'same seed, different candidates', case)


def to_trials_stage(c):
  """`best_candidates_to_trials`: each returned trial is ONE row of the result (its continuous part, its
  categorical part and its reward belong to the same row), and trials come best first."""
  E = env()
  vb, jnp = E['vb'], E['jnp']
  rng = c.rng
  layouts = [(2, [3]), (1, [2, 4]), (0, [3, 2]), (3, []), (2, [5])]
  if c.tier != 'quick':
    layouts += [(rng.randrange(0, 4), [rng.randrange(2, 6) for _ in range(rng.randrange(1, 4))]) for _ in range(6)]
  for li, (nc, ar) in enumerate(layouts):
    r = Runner(Cfg('random', nc, ar, rng.choice([None, 'pow2']), 4, 2, 8, 0, 'to-trials'))
    for rep in range(3 if c.tier == 'quick' else 8):
      n = rng.randrange(2, 7)
      for par in ([1] if rep else [1, 2]):
        cont = np.zeros((n, par, r.ncp), dtype=r.fdtype)
        cat = np.zeros((n, par, r.nkp), dtype=np.int32)
        for i in range(n):
          for j in range(par):
            cont[i, j, :nc] = [round(rng.random(), 3) for _ in range(nc)]
            cat[i, j, :len(ar)] = [rng.randrange(a) for a in ar]
        kind = rng.choice(['distinct', 'ties', 'sorted-desc', 'neginf', 'nan'])
        rew = [round(rng.uniform(-5, 5), 3) for _ in range(n)]
        if kind == 'ties':
          rew = [rng.choice([0.0, 1.0, 2.0]) for _ in range(n)]
        elif kind == 'sorted-desc':
          rew = sorted(rew, reverse=True)
        elif kind == 'neginf':
          rew[rng.randrange(n)] = -np.inf
        elif kind == 'nan':
          rew[rng.randrange(n)] = np.nan
        rew = np.array(rew, dtype=r.fdtype)
        res = vb.VectorizedStrategyResults(
            features=vb.VectorizedOptimizerInput(jnp.asarray(cont), jnp.asarray(cat)), rewards=jnp.asarray(rew))
        case = {'layout': {'nc': nc, 'ar': ar, 'pad': r.cfg.pad}, 'n_parallel': par, 'rewards': [repr(float(v)) for v in rew],
                'cont': cont[:, :, :nc].tolist(), 'cat': cat[:, :, :len(ar)].tolist()}
        c.count(1, ('to_trials', kind, par), kind='to_trials:' + kind)
        c.traces += 1
        try:
          trials = vb.best_candidates_to_trials(res, r.conv)
        except Exception as e:  # pylint: disable=broad-except
          c.prop_fail('to-trials-raised', 'best_candidates_to_trials raised %s: %s' % (type(e).__name__, e), case)
          continue

        def row_params(i, j):
          d = {xname(t): 10.0 * float(cont[i, j, t]) for t in range(nc)}
          d.update({cname(t): str(int(cat[i, j, t])) for t in range(len(ar))})
          return d

        def tkey(d, rw):
          return (tuple(sorted((k, round(v, 4) if isinstance(v, float) else v) for k, v in d.items())),
                  'nan' if np.isnan(rw) else round(float(rw), 4))

        want = collections.Counter(tkey(row_params(i, j), rew[i]) for i in range(n) for j in range(par))
        got = collections.Counter()
        accs = []
        for t in trials:
          acq = t.final_measurement.metrics['acquisition'].value
          accs.append(acq)
          got[tkey({k: (float(v) if not isinstance(v, str) else v) for k, v in t.parameters.as_dict().items()}, acq)] += 1
        if got != want:
          c.prop_fail('to-trials-row-mixed',
                      'best_candidates_to_trials returned trials that are not the rows of the optimiser result (features of one row with the reward or features of another): extra %s, missing %s' % (
                          list((got - want).elements())[:3], list((want - got).elements())[:3]), case)
          continue
        if kind != 'nan':
          # exact order against the Lean `toTrials` (stable descending sort of the rows)
          rk = fkey(rew)
          m = c.lean('C19', [{'op': 'totrials', 'rows': [{'ids': [i * par + j for j in range(par)], 'r': int(rk[i])} for i in range(n)]}])[0]
          model_seq = [tkey(row_params(t['id'] // par, t['id'] % par), rew[t['id'] // par]) for t in m['trials']]
          real_seq = [tkey({k: (float(v) if not isinstance(v, str) else v) for k, v in t.parameters.as_dict().items()},
                           t.final_measurement.metrics['acquisition'].value) for t in trials]
          if model_seq != real_seq:
            c.tie_break('best_candidates_to_trials order (c19_to_trials / toTrials)', case, real_seq, model_seq)
        fin = [a for a in accs if not np.isnan(a)]
        if any(fin[i] < fin[i + 1] for i in range(len(fin) - 1)):
          c.prop_fail('to-trials-order', 'best_candidates_to_trials does not return the best candidate first: acquisition values %s' % accs, case)


def parallel_stage(c):
  """n_parallel > 1 (a parallel acquisition function scores SETS of points): property predicates only - the model
  covers n_parallel=None.  Priors whose number is not a multiple of n_parallel, trial padding on the converter (the
  rows after the last prior hold the converter's fill values NaN / -1), and a score that is finite and maximal at
  those fill values: every returned point must still be a point of the search space."""
  E = env()
  jax, jnp = E['jax'], E['jnp']
  plans = [('eagle', 3)] if c.tier == 'quick' else [('eagle', 3), ('eagle', 5), ('eagle', 4), ('random', 3), ('random', 5)]
  for strategy, n_prior in plans:
    evals = eagle_pool(3, 3, 4) + 8 if strategy == 'eagle' else 16
    cfg = Cfg(strategy, 3, [3, 4, 2], 'pow2', 4, 3, evals, n_prior, 'n_parallel=2,priors=%d' % n_prior)
    runner = Runner(cfg)
    case = {'config': cfg.desc(), 'n_parallel': 2, 'n_prior': n_prior}
    c.count(1, ('parallel', strategy, n_prior), kind='%s:n_parallel=2' % strategy)
    if runner.build_error is not None:
      c.prop_fail('optimizer-raises', 'building the optimiser raised %r' % (runner.build_error,), case)
      continue
    params, _ = runner.gen_params(c.rng, 'catonly')
    params['table'][:, :] = 0.25
    params['table'][:, 0] = 1.0           # category 0 is the best one everywhere (and what an index of -1 is clipped to)
    pts = [{'c': [round(c.rng.random(), 2) for _ in range(cfg.nc)], 'k': [0 for _ in cfg.ar]} for _ in range(n_prior)]
    pf = runner.priors_from_points(pts)
    rescore, opt = runner.rescore, runner.opt

    def make(params):
      def score(x, seed):
        del seed
        r = rescore(params, x.continuous.padded_array, x.categorical.padded_array)     # (batch, n_parallel)
        return jnp.sum(r, axis=-1)
      return score
    fn = jax.jit(lambda seed, params, pf: opt(make(params), count=cfg.count, seed=seed, prior_features=pf, n_parallel=2))
    outs = []
    for seed in (3, 3, 11):
      try:
        res = fn(jax.random.PRNGKey(seed), params, pf)
        jax.block_until_ready(res)
        outs.append((np.array(res.rewards), np.array(res.features.continuous), np.array(res.features.categorical)))
      except Exception as e:  # pylint: disable=broad-except
        c.prop_fail('optimizer-raises', 'the optimiser (n_parallel=2, %d priors) raised %r' % (n_prior, e), case)
        outs = []
        break
      c.traces += 1
    if not outs:
      continue
    if not all(np.array_equal(a, b, equal_nan=True) for a, b in zip(outs[0], outs[1])):
      c.prop_fail('same-seed-different-result', 'two calls with the same seed and score function returned different candidates (n_parallel=2)', case)
    for rewards, cont, cat in (outs[0], outs[2]):
      if cont.shape[:2] != (cfg.count, 2) or cat.shape[:2] != (cfg.count, 2):
        c.prop_fail('result-shape', 'n_parallel=2, count=%d: result shapes %s / %s' % (cfg.count, cont.shape, cat.shape), case)
        continue
      feats = [feat_json(cont[i, j], cat[i, j]) for i in range(cfg.count) for j in range(2)]
      chk = c.lean('C19', [{'op': 'check', 'layout': runner.layout, 'zero': fkey1(0.0, runner.fdtype), 'one': fkey1(1.0, runner.fdtype), 'feats': feats}])[0]
      if 'error' in chk:
        raise core.InfraError('driver C19: %s' % chk)
      bad = [i for i, (a, b) in enumerate(zip(chk['inBounds'], chk['maskFixed'])) if not (a and b)]
      if bad:
        i = bad[0]
        c.prop_fail('candidate-out-of-bounds:n_parallel', 'n_parallel=2, %d priors (%s): point %d of returned set %d is not a point of the search space: continuous %s categorical %s (layout %s)' % (
            n_prior, strategy, i % 2, i // 2, cont[i // 2, i % 2].tolist(), cat[i // 2, i % 2].tolist(), runner.layout),
                    dict(case, continuous=cont.tolist(), categorical=cat.tolist(), rewards=rewards.tolist()))
      # the reported score is the score function's value at the returned set
      again = np.asarray(jnp.sum(rescore(params, jnp.asarray(cont), jnp.asarray(cat)), axis=-1))
      if not all(close(a, b) for a, b in zip(rewards, again)):
        c.prop_fail('score-mismatch:n_parallel', 'n_parallel=2: reported rewards %s, the score function gives %s at the returned sets' % (rewards.tolist(), again.tolist()), case)


def run(c):
  c.proof_stage()
  state = {'exact': 0, 'compared': 0, 'random_pad': 'honoured'}
  identify_variants(c)
  if getattr(c, 'replay_path', None):
    replay(c, c.replay_path, state)
    return c.finish(level='proof', rule='replay of ' + c.replay_path)
  quick = c.tier == 'quick'
  cfgs = core_configs() + [gen_config(c.rng) for _ in range(1 if quick else 14)]
  families = ['interior', 'corner', 'catonly', 'plateau', 'nonfinite', 'peak', 'mostlyneginf']
  n_seeds = 2 if quick else 4
  for ci, cfg in enumerate(cfgs):
    run_config(c, ci, cfg, n_seeds, families, state)
  # the sign-bit-NaN witness: every reward ranks below the -inf placeholder
  wn = Cfg('eagle', 2, [], None, 5, 2, 10, 0, 'witness:all-rewards-negative-NaN')
  rn = Runner(wn)
  params, pdesc = rn.gen_params(c.rng, 'allnan', nan_sign='-')
  outn = rn.run(5, params)
  c.count(1, ('allnan', 0), kind='eagle:allnan')
  if 'error' not in outn:
    c.traces += 1
    req, batches, _ = model_request(rn, outn, None, False)
    m = c.lean('C19', [req])[0]
    real = [entry_tuple(e) for e in result_entries(outn)]
    if real != [entry_tuple(e) for e in m['res']]:
      c.tie_break('best results (all rewards below the placeholder)', {'config': wn.desc()}, real, m['res'])
    resc = np.asarray(rn.rescore(params, outn['cont'][:, 0], outn['cat'][:, 0]))
    if not all(close(a, b) for a, b in zip(outn['rewards'], resc)):
      c.prop_fail(KEY_NAN, 'score function = NaN (sign bit set, as produced by inf-inf) everywhere, count=2, 10 evaluations: returned rewards %s at features %s although the score function gives NaN there: lax.top_k ranks such NaNs below the -inf placeholders' % (
          outn['rewards'].tolist(), outn['cont'][:, 0].tolist()), {'config': wn.desc(), 'score': pdesc, 'seed': 5})
    c.flags['negativeNaNRanksBelowPlaceholder'] = bool(np.all(np.isneginf(outn['rewards'])))
  to_trials_stage(c)
  parallel_stage(c)
  production_jit_stage(c)
  fresh_rebuild_determinism(c, cfgs[0])
  if not quick:
    fresh_rebuild_determinism(c, cfgs[5])
    # the un-rolled python loop (use_fori=False) must behave like the fori_loop
    run_config(c, 100, Cfg('eagle', 2, [3], None, 5, 3, 20, 2, 'use_fori=False'), 2, ['interior', 'plateau', 'peak'], state, use_fori=False)
    run_config(c, 101, Cfg('random', 2, [2], None, 3, 4, 9, 0, 'use_fori=False'), 2, ['interior', 'catonly'], state, use_fori=False)
    lbfgsb_stage(c)
  c.flags['randomStrategyPadding'] = state['random_pad']
  c.coverage_extra['results_equal_to_model_in_exact_order'] = '%d of %d' % (state['exact'], state['compared'])
  c.coverage_extra['runs_whose_recorded_scores_were_not_bitwise_reproducible (result tie skipped)'] = state.get('not_reproducible', 0)
  c.coverage_extra['configurations'] = [cfg.desc() for cfg in cfgs]

  if os.environ.get('VERIF_DEBUG'):
    print('PROP-FAIL keys', dict(collections.Counter(v['key'] for v in c.violations)), {k: v[1] for k, v in c.known_hits.items()})
    for v in c.violations[:40]:
      print('  FAIL', v['key'], v['what'][:300], json.dumps(v['case'].get('config', {}), default=str)[:300] if isinstance(v['case'], dict) else '')
    for b in c.tie_breaks[:12]:
      print('TIE-BREAK', b['where'], json.dumps(b['case'], default=str)[:400], '\n   real=', json.dumps(b['real'], default=str)[:500],
            '\n   model=', json.dumps(b['model'], default=str)[:500])

  def search():
    """Enlarged search when a proof or the tie broke: corner-seeking scores make an out-of-bounds or
    unmasked candidate the best one, so it is returned and judged by `inBounds`."""
    for ci, cfg in enumerate(cfgs[:5]):
      run_config(c, 200 + ci, cfg, 6, ['corner', 'interior'], state)

  return c.finish(
      level='proof',
      rule='one evaluation = one call of the real jitted VectorizedOptimizer (eagle/random) whose recorded batch stream is replayed through the Lean model and whose result is judged by the property predicates; non-trivial = tied rewards among the evaluated candidates, or count > batch size, or prior features present, or padded feature dimensions, or non-finite rewards',
      assumptions=[
          'rewards and features are compared as IEEE total-order keys (the order lax.top_k uses: +NaN above +inf, sign-bit NaN below -inf); "not worse than the prior" is judged in that order with tolerance 1e-5 for finite values',
          'score functions read the real (unpadded) feature dimensions only, n_parallel=None, float32 (jax default)',
          'the eagle strategy is observed through its public projection_factory hook (DefaultProjection wrapped by a recorder) and the score function callback; the validity mask of prior rows is observable only through the strategy / the merged priors',
          'reported score vs re-evaluated score: tolerance 1e-5 relative (float32)'],
      search=search)
