"""C07 — RAM, in-memory SQLite and SQLite-file backends are observationally equivalent."""
import json

from vcheck import core, svccheck, svc

WEIGHTS = {'createStudy': 4, 'getStudy': 1, 'listStudies': 2, 'deleteStudy': 4, 'setStudyState': 2,
           'createTrial': 5, 'suggest': 9, 'getOperation': 3, 'getTrial': 1, 'listTrials': 2,
           'addMeasurement': 3, 'complete': 6, 'stop': 2, 'deleteTrial': 3, 'checkEarlyStop': 4,
           'updateMetadata': 6, 'listOptimal': 1}


def stores_stage(c):
  """Representation-level tie and property: raw datastore call sequences on the REAL
  NestedDictRAMDataStore and SQLDataStore, each against its own model (Model/Stores.lean `Ram` /
  `Sql`); on guarded sequences (trials and operations only created in existing studies, operations
  numbered consecutively - what the service guarantees) the two real stores must answer identically."""
  import json
  from vcheck import stores
  n = 60 if c.tier == 'quick' else 600
  seqs, guarded = [], []
  # the witness of c07_create_trial_orphan_counterexample first
  t0 = {'id': 1, 'state': 'ACTIVE', 'client': '', 'params': 0, 'meas': [], 'final': None, 'reason': '', 'md': []}
  seqs.append([{'op': 'createTrial', 'k': ['o', 's'], 'trial': t0}, {'op': 'createStudy', 'k': ['o', 's'], 'head': {'state': 'ACTIVE', 'spec': 0, 'md': []}},
               {'op': 'listTrials', 'k': ['o', 's']}])
  guarded.append(False)
  # the witnesses of c07_es_unguarded_counterexamples: SQL inserts an early-stopping operation of a missing study; RAM's update upserts
  e0 = {'trial': 1, 'active': True, 'stop': False}
  seqs.append([{'op': 'createEs', 'k': ['o', 's'], 'es': e0}, {'op': 'createStudy', 'k': ['o', 't'], 'head': {'state': 'ACTIVE', 'spec': 0, 'md': []}},
               {'op': 'updateEs', 'k': ['o', 't'], 'es': e0}, {'op': 'getEs', 'k': ['o', 't'], 'id': 1}])
  guarded.append(False)
  for i in range(n):
    g = stores.Gen(c.rng, guarded=(i % 3 != 0))
    seqs.append(g.sequence(c.rng.randrange(5, 45)))
    guarded.append(i % 3 != 0)
  models = c.lean('Stores', [{'ops': s} for s in seqs])
  for si, (s, m) in enumerate(zip(seqs, models)):
    if 'error' in m:
      raise core.InfraError('stores driver: %s' % m)
    real = {}
    for kind in ('ram', 'sql'):
      real[kind] = stores.run_real(kind, s)
      c.traces += 1
      for i, (a, b) in enumerate(zip(real[kind], m[kind])):
        c.count(1, kind='store:%s:%s' % (s[i]['op'], a if isinstance(a, str) else 'value'))
        if a != b:
          c.tie_break('datastore model vs real %s datastore' % kind, {'ops': s[:i + 1], 'step': i}, a, b)
          break
    nerr = sum(1 for x in real['ram'] if isinstance(x, str) and x.startswith('err'))
    c.count(0, ('stores', si) if (nerr >= 1 and len(s) >= 10) else None)
    if guarded[si]:
      for i, (a, b) in enumerate(zip(real['ram'], real['sql'])):
        if a != b:
          c.prop_fail('datastores-differ:%s' % s[i]['op'],
                      'the same datastore call sequence (as the service issues it) is answered differently by the RAM and the SQL datastore at step %d (%s): ram=%s sql=%s' % (
                          i, s[i]['op'], json.dumps(a)[:160], json.dumps(b)[:160]),
                      {'ops': s[:i + 1], 'ram': a, 'sql': b})
          break
  # directed (real RAM vs real SQL only; the model's trial ids are positive numbers): an update_metadata whose
  # trial id is not a positive number is refused with the same error on both stores and must leave BOTH unchanged
  head0 = {'state': 'ACTIVE', 'spec': 0, 'md': []}
  for bad in ('0', '-3', 'abc'):
    seq = [{'op': 'createStudy', 'k': ['o', 's'], 'head': head0},
           {'op': 'updateMetadata', 'k': ['o', 's'], 'study': [['', 'k', 'v']], 'trials': [[bad, [['', 't', 'v']]]]},
           {'op': 'loadStudy', 'k': ['o', 's']},
           {'op': 'updateStudy', 'k': ['o', 's'], 'head': dict(head0, state='INACTIVE')},     # a later committing write
           {'op': 'loadStudy', 'k': ['o', 's']}]
    a, b = stores.run_real('ram', seq), stores.run_real('sql', seq)
    c.traces += 2
    c.count(1, ('stores-malformed-id', bad), kind='store:updateMetadata:malformed-trial-id')
    for i, (x, y) in enumerate(zip(a, b)):
      if x != y:
        c.prop_fail('datastores-differ:updateMetadata-malformed-trial-id',
                    'update_metadata naming the trial id %r is refused by both datastores (%s), but afterwards step %d (%s) is answered differently: ram=%s sql=%s' % (
                        bad, a[1], i, seq[i]['op'], json.dumps(x)[:160], json.dumps(y)[:160]),
                    {'ops': seq[:i + 1], 'ram': x, 'sql': y})
        break
  # directed: a trial named by a non-canonical decimal string ('02' is what int() maps to trial 2) is the trial;
  # the update is stored on both datastores, last writer wins inside one request ('2', '02', '2' again)
  trial0 = lambda i: {'id': i, 'state': 'ACTIVE', 'client': 'w', 'params': i, 'meas': [], 'final': None, 'reason': '', 'md': []}
  for alias in ('02', '+2', ' 2', '2 '):
    seq = [{'op': 'createStudy', 'k': ['o', 's'], 'head': head0},
           {'op': 'createTrial', 'k': ['o', 's'], 'trial': trial0(1)},
           {'op': 'createTrial', 'k': ['o', 's'], 'trial': trial0(2)},
           {'op': 'updateMetadata', 'k': ['o', 's'], 'study': [['', 'k', 'v']],
            'trials': [['2', [['', 'q', 'a']]], [alias, [['', 't', 'v'], ['', 'q', 'b']]], ['2', [['', 'q', 'c']]]]},
           {'op': 'getTrial', 'k': ['o', 's'], 'id': 2},
           {'op': 'getTrial', 'k': ['o', 's'], 'id': 1}]
    a, b = stores.run_real('ram', seq), stores.run_real('sql', seq)
    c.traces += 2
    c.count(1, ('stores-alias-id', alias), kind='store:updateMetadata:alias-trial-id')
    want = [['', 'q', 'c'], ['', 't', 'v']]
    for kind, out in (('ram', a), ('sql', b)):
      got = out[4].get('md') if isinstance(out[4], dict) else out[4]
      if out[3] != 'ok' or got != want or (isinstance(out[5], dict) and out[5].get('md')):
        c.prop_fail('update-metadata-alias-trial-id-lost',
                    'update_metadata naming trial 2 as %r answered %s on the %s datastore and trial 2 then carries %s (trial 1: %s); written last: %s' % (
                        alias, json.dumps(out[3])[:80], kind, json.dumps(got)[:160], json.dumps(out[5].get('md') if isinstance(out[5], dict) else out[5])[:80], json.dumps(want)),
                    {'ops': seq, 'backend': kind, 'answers': out})
    if a != b:
      c.prop_fail('datastores-differ:updateMetadata-alias-trial-id', 'update_metadata naming trial 2 as %r: ram=%s sql=%s' % (alias, json.dumps(a[3:])[:200], json.dumps(b[3:])[:200]),
                  {'ops': seq, 'ram': a, 'sql': b})
  # the orphan witness: the flag documents which behaviour the current tree has
  w_ram, w_sql = stores.run_real('ram', seqs[0]), stores.run_real('sql', seqs[0])
  c.flags['sqlCreateTrialChecksStudy'] = (w_sql[0] != 'ok')
  c.flags['ramCreateTrialChecksStudy'] = (w_ram[0] != 'ok')
  e_ram, e_sql = stores.run_real('ram', seqs[1]), stores.run_real('sql', seqs[1])
  c.flags['sqlCreateEsChecksStudy'] = (e_sql[0] != 'ok')
  c.flags['ramUpdateEsUpserts'] = (e_ram[2] == 'ok')
  c.flags['sqlUpdateEsUpserts'] = (e_sql[2] == 'ok')
  c.sample({'store_sequence': seqs[2][:12], 'ram': models[2]['ram'][:12]})


KEY_NONCANON = 'noncanonical-resource-name-parsed-by-ram-matched-raw-by-sql'


def noncanonical_names_stage(c):
  """Directed, real RAM vs real SQLite servicers: resource names the service never produces itself
  (a zero-padded trial id, a string that is no resource name).  RAM parses names (int() on the id, ValueError on
  a non-match), SQL matches the stored name string."""
  from vizier._src.service import vizier_service, vizier_service_pb2 as vsp, study_pb2
  outs = {}
  calls = [('GetTrial', lambda sv: sv.GetTrial(vsp.GetTrialRequest(name='owners/o/studies/s/trials/01'))),
           ('DeleteTrial', lambda sv: sv.DeleteTrial(vsp.DeleteTrialRequest(name='owners/o/studies/s/trials/01'))),
           ('GetStudy', lambda sv: sv.GetStudy(vsp.GetStudyRequest(name='garbage'))),
           ('ListTrials', lambda sv: len(sv.ListTrials(vsp.ListTrialsRequest(parent='owners/o/studies/s')).trials))]
  for be, url in (('ram', None), ('sqlmem', 'sqlite:///:memory:')):
    sv = vizier_service.VizierServicer(database_url=url)
    sv.CreateStudy(vsp.CreateStudyRequest(parent='owners/o', study=study_pb2.Study(display_name='s', study_spec=svc.simple_study_spec())))
    sv.CreateTrial(vsp.CreateTrialRequest(parent='owners/o/studies/s', trial=study_pb2.Trial()))
    res = []
    for name, f in calls:
      try:
        r = f(sv)
        res.append([name, 'ok', r if isinstance(r, int) else None])
      except Exception as e:  # pylint: disable=broad-except
        res.append([name, 'NOT_FOUND' if isinstance(e, KeyError) else type(e).__name__, None])
    outs[be] = res
    c.traces += 1
  c.count(1, ('noncanonical-names',), kind='directed:noncanonical-names')
  for a, b in zip(outs['ram'], outs['sqlmem']):
    if a != b:
      c.prop_fail(KEY_NONCANON,
                  '%s with a non-canonical resource name is answered %s on the RAM backend and %s on the SQL backend' % (a[0], a[1:], b[1:]),
                  {'calls': ['CreateStudy o/s', 'CreateTrial', "GetTrial('owners/o/studies/s/trials/01')", "DeleteTrial('owners/o/studies/s/trials/01')",
                             "GetStudy('garbage')", 'ListTrials'], 'ram': outs['ram'], 'sqlmem': outs['sqlmem']})
      break


def grpc_backends_stage(c):
  """The same histories through a gRPC server on top of each backend: the error translation sits between the
  datastore's exception and the client (status codes), so the CLASS a client sees must not depend on how a backend
  happens to raise (exception chaining, subclassing)."""
  from vcheck import deploy, svcgen
  hists = svcgen.matrix()[::3][: (10 if c.tier == 'quick' else 60)]
  for _ in range(4 if c.tier == 'quick' else 40):
    g = svcgen.Gen(c.rng, owners=('o',), sids=('s',), weights=WEIGHTS, fail_rate=0.1)
    hists.append(g.history(c.rng.randrange(6, 18)))
  for hi, h in enumerate(hists):
    runs = {}
    for be in ('ram', 'sqlmem'):
      d = deploy.Deployment('grpc', be)
      try:
        rr = d.runner()
        resps, snaps = [], []
        for rq in h:
          resps.append(deploy.canon_resp(rr.step(rq)))
          snaps.append(rr.snapshot())
        runs[be] = (resps, snaps)
        c.traces += 1
      finally:
        d.close()
    c.count(len(h), ('grpc-backends', hi) if any(r.get('k') == 'err' for r in runs['ram'][0]) else None, kind='grpc-backends-history')
    for i, rq in enumerate(h):
      a, b = runs['ram'][0][i], runs['sqlmem'][0][i]
      if a != b or runs['ram'][1][i] != runs['sqlmem'][1][i]:
        what = 'responses' if a != b else 'stored data'
        c.prop_fail('backends-differ-behind-grpc:%s' % rq['op'],
                    'behind a gRPC server the same call sequence gives different %s on the RAM and the SQL backend at step %d (%s): ram=%s sql=%s' % (
                        what, i, rq['op'], json.dumps(a)[:160], json.dumps(b)[:160]),
                    {'history': h[:i + 1], 'ram': {'resp': a, 'state': runs['ram'][1][i]}, 'sqlmem': {'resp': b, 'state': runs['sqlmem'][1][i]}})
        break


def run(c):
  # translator: the keys of every SQL query of sql_datastore.py, regenerated from the source (kernel-checked obligations)
  from vcheck import sqlkeyscheck
  sqlkeyscheck.translate(c)
  c.proof_stage()
  sqlkeyscheck.stage(c)
  stores_stage(c)
  noncanonical_names_stage(c)
  # resource names: both datastores key everything by them (RAM parses, SQL matches the string)
  from vcheck import resourcecheck
  resourcecheck.stage(c)
  backends = ['ram', 'sqlmem', 'sqlfile']
  cfgs = svccheck.identify_flags(c, backends, report=('deleteCascadesOps', 'metadataAtomic'))
  n = 70 if c.tier == 'quick' else 800
  svccheck.differential(c, 'C07', n, backends, cfgs, weights=WEIGHTS, check_backends_equal=True,
                        lengths=(4, 24) if c.tier == 'quick' else (4, 40))
  grpc_backends_stage(c)
  svc.cleanup()
  return c.finish(
      level='proof',
      rule='(a) raw datastore call sequences (stateful generator; two thirds guarded as the service issues them) on the real RAM and SQL datastores vs the representation models and vs each other; (b) stateful histories biased to delete-study/re-create, metadata updates naming missing trials, early-stopping checks and operation lookups, each replayed on RAM, sqlite:///:memory: and a SQLite file; non-trivial when >=2 of suggest/complete/deleteTrial/deleteStudy/checkEarlyStop occur',
      assumptions=['timestamps aside', 'SQLite row order = insertion order (trusted)'])
