"""C07 — RAM, in-memory SQLite and SQLite-file backends are observationally equivalent."""
from vcheck import core, svccheck, svc

WEIGHTS = {'createStudy': 4, 'getStudy': 1, 'listStudies': 2, 'deleteStudy': 4, 'setStudyState': 2,
           'createTrial': 5, 'suggest': 9, 'getOperation': 3, 'getTrial': 1, 'listTrials': 2,
           'addMeasurement': 3, 'complete': 6, 'stop': 2, 'deleteTrial': 3, 'checkEarlyStop': 4,
           'updateMetadata': 6, 'listOptimal': 1}


def run(c):
  c.proof_stage()
  backends = ['ram', 'sqlmem', 'sqlfile']
  cfgs = svccheck.identify_flags(c, backends, report=('deleteCascadesOps', 'metadataAtomic'))
  n = 70 if c.tier == 'quick' else 800
  svccheck.differential(c, 'C07', n, backends, cfgs, weights=WEIGHTS, check_backends_equal=True,
                        lengths=(4, 24) if c.tier == 'quick' else (4, 40))
  svc.cleanup()
  return c.finish(
      level='proof',
      rule='stateful histories biased to delete-study/re-create, metadata updates naming missing trials, early-stopping checks and operation lookups, each replayed on RAM, sqlite:///:memory: and a SQLite file; non-trivial when >=2 of suggest/complete/deleteTrial/deleteStudy/checkEarlyStop occur',
      assumptions=['timestamps aside', 'SQLite row order = insertion order (trusted)'])
