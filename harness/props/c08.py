"""C08 — local, gRPC and split-Pythia deployments behave identically for clients."""
import copy
import json

from vcheck import core, svccheck, svcgen, svcreal, svc

KINDS = ('local', 'grpc', 'split')


def rpc_histories(c):
  """RPC-level histories replayed on the three deployments; judged pairwise (the property) and
  against the model (tie)."""
  from vcheck import deploy
  n = 25 if c.tier == 'quick' else 300
  backends = ['ram'] if c.tier == 'quick' else ['ram', 'sqlmem']
  hists = svcgen.matrix() + svccheck.load_corpus()[::2]     # every RPC on every trial / study state (directed) + minimised past failures
  for i in range(n):
    g = svcgen.Gen(c.rng, owners=('o',), sids=('s',) if i % 3 else ('s', 't'), fail_rate=0.25)
    hists.append(g.history(c.rng.randrange(4, 20)))
  models = c.lean('Svc', [{'op': 'run', 'cfg': dict(svccheck.FIXED, esRecycle=True), 'reqs': h, 'snaps': True} for h in hists])
  for hi, h in enumerate(hists):
    for be in backends:
      runs = {}
      for kind in KINDS:
        d = deploy.Deployment(kind, be)
        try:
          rr = d.runner()
          resps, snaps = [], []
          for rq in h:
            resps.append(rr.step(rq))
            snaps.append(rr.snapshot())
          runs[kind] = (resps, snaps)
          c.traces += 1
        finally:
          d.close()
      base_resps, base_snaps = runs['local']
      m = models[hi]
      for i, rq in enumerate(h):
        c.count(1, kind='c08-rpc:' + rq['op'])
        # tie: local deployment vs the model
        a, b = svcgen.norm_resp_pair(rq, base_resps[i], m['resps'][i])
        if deploy.canon_resp(a) != deploy.canon_resp(b) or base_snaps[i] != svcreal.canon_db(m['snaps'][i]):
          c.tie_break('local deployment vs model', {'history': h[:i + 1], 'backend': be}, {'resp': a, 'state': base_snaps[i]}, {'resp': b, 'state': svcreal.canon_db(m['snaps'][i])})
          break
      for kind in ('grpc', 'split'):
        resps, snaps = runs[kind]
        for i, rq in enumerate(h):
          ra, rb = deploy.canon_resp(base_resps[i]), deploy.canon_resp(resps[i])
          if rq['op'] == 'getOperation':
            ra = {k: v for k, v in ra.items() if k not in ('handed', 'handed_ids')}
            rb = {k: v for k, v in rb.items() if k not in ('handed', 'handed_ids')}
          if ra != rb or base_snaps[i] != snaps[i]:
            what = 'result / error class' if ra != rb else 'stored data'
            key = 'deployments-differ:%s:%s' % (rq['op'], 'response' if ra != rb else 'state')
            c.prop_fail(key, 'the same call sequence gives a different %s through the in-process service and the %s deployment at step %d (%s): local=%s %s=%s' % (
                what, kind, i, rq['op'], json.dumps(ra)[:200], kind, json.dumps(rb)[:200]),
                        {'backend': be, 'deployment': kind, 'history': h[:i + 1], 'local': {'resp': base_resps[i], 'state': base_snaps[i]},
                         kind: {'resp': resps[i], 'state': snaps[i]}})
            break
    kinds = set(r['op'] for r in h)
    c.count(0, ('c08hist', hi) if len(kinds & {'suggest', 'complete', 'deleteTrial', 'checkEarlyStop', 'updateMetadata'}) >= 2 else None)
  if hists:
    c.sample({'rpc_history': hists[0]})


def hosted_histories(c):
  """The same comparison with the REAL stateful designer policy (PartiallySerializableDesignerPolicy: config check,
  id-deduplicating trial loader reading trials back through the policy supporter, state dump into the study
  metadata) hosted around a scripted designer: in the split deployment the policy's own traffic goes through a
  gRPC stub, in the other two through the servicer object.  Deleted trials leave gaps in the id range."""
  from vcheck import deploy
  S = lambda n, base: {'kind': 'ok', 'sugg': [{'params': base + i, 'md': []} for i in range(n)], 'delta': []}
  b = {'owner': 'o', 'sid': 's'}
  directed = [
      {'op': 'createStudy', 'owner': 'o', 'display': 's', 'spec': 1, 'state': 'ACTIVE', 'md': []},
      dict(b, op='suggest', client='w1', count=3, alg=S(3, 1)),
      dict(b, op='complete', id=1, final=[1, True], infeasible=False, reason=''),
      dict(b, op='complete', id=2, final=[2, True], infeasible=False, reason=''),
      dict(b, op='complete', id=3, final=None, infeasible=True, reason='bad'),
      dict(b, op='deleteTrial', id=1),
      dict(b, op='suggest', client='w1', count=2, alg=S(2, 10)),
      dict(b, op='listTrials'),
      dict(b, op='deleteTrial', id=5),
      dict(b, op='suggest', client='w2', count=1, alg=S(1, 20)),
      dict(b, op='getStudy'), dict(b, op='listTrials')]
  hists = [directed]
  weights = {'createStudy': 1, 'getStudy': 1, 'listStudies': 0, 'deleteStudy': 0, 'setStudyState': 1, 'createTrial': 3, 'suggest': 10,
             'getOperation': 1, 'getTrial': 1, 'listTrials': 2, 'addMeasurement': 1, 'complete': 8, 'stop': 1, 'deleteTrial': 5,
             'checkEarlyStop': 0, 'updateMetadata': 2, 'listOptimal': 1}
  for _ in range(3 if c.tier == 'quick' else 30):
    g = svcgen.Gen(c.rng, owners=('o',), sids=('s',), weights=weights, fail_rate=0.0)
    hists.append([r for r in g.history(c.rng.randrange(8, 18)) if not (r['op'] == 'suggest' and r['alg'].get('kind') != 'ok')])
  for hi, h in enumerate(hists):
    runs = {}
    for kind in KINDS:
      d = deploy.Deployment(kind, 'ram' if hi % 2 == 0 else 'sqlmem', hosted=True)
      try:
        rr = d.runner()
        resps, snaps = [], []
        for rq in h:
          resps.append(rr.step(rq))
          snaps.append(rr.snapshot())
        runs[kind] = (resps, snaps)
        c.traces += 1
      finally:
        d.close()
    kinds = set(r['op'] for r in h)
    c.count(len(h), ('c08hosted', hi) if {'suggest', 'deleteTrial'} <= kinds else None, kind='c08-hosted-history')
    base_resps, base_snaps = runs['local']
    for kind in ('grpc', 'split'):
      resps, snaps = runs[kind]
      for i, rq in enumerate(h):
        ra, rb = deploy.canon_resp(base_resps[i]), deploy.canon_resp(resps[i])
        if rq['op'] == 'getOperation':
          ra = {k: v for k, v in ra.items() if k not in ('handed', 'handed_ids')}
          rb = {k: v for k, v in rb.items() if k not in ('handed', 'handed_ids')}
        if ra != rb or base_snaps[i] != snaps[i]:
          what = 'result / error class' if ra != rb else 'stored data'
          c.prop_fail('deployments-differ:hosted:%s:%s' % (rq['op'], 'response' if ra != rb else 'state'),
                      'hosting the real designer policy, the same call sequence gives a different %s through the in-process service and the %s deployment at step %d (%s): local=%s %s=%s' % (
                          what, kind, i, rq['op'], json.dumps(ra)[:200], kind, json.dumps(rb)[:200]),
                      {'deployment': kind, 'hosted': True, 'history': h[:i + 1], 'local': {'resp': base_resps[i], 'state': base_snaps[i]},
                       kind: {'resp': resps[i], 'state': snaps[i]}})
          break


def client_programs(c):
  """Client-level programs (clients.Study / clients.Trial) on the three deployments."""
  from vcheck import deploy
  from vizier.service import clients
  from vizier.service import pyvizier as vz
  from vizier._src.service import vizier_client, custom_errors
  from vizier.client import client_abc
  import grpc
  n = 12 if c.tier == 'quick' else 150

  def make_config():
    sc = vz.StudyConfig()
    sc.search_space.root.add_float_param('x', 0.0, 2000.0)
    sc.metric_information.append(vz.MetricInformation('obj', goal=vz.ObjectiveMetricGoal.MAXIMIZE))
    sc.algorithm = 'RANDOM_SEARCH'
    return sc

  def obs_exc(e):
    if isinstance(e, client_abc.ResourceNotFoundError):
      return 'ResourceNotFoundError'
    if isinstance(e, grpc.RpcError) and hasattr(e, 'code'):
      code = e.code().name
      return 'ERR:' + (code if code in deploy.STATUS else 'OTHER')
    if isinstance(e, custom_errors.NotFoundError):
      return 'ERR:NOT_FOUND'
    if isinstance(e, custom_errors.AlreadyExistsError):
      return 'ERR:ALREADY_EXISTS'
    if isinstance(e, RuntimeError):
      return 'RuntimeError'
    if isinstance(e, ValueError):
      return 'ValueError'
    return 'ERR:OTHER'

  def gen_program(rng):
    prog = [('create',)]
    tok = [0]
    for _ in range(rng.randrange(4, 14)):
      x = rng.random()
      tid = rng.choice([1, 1, 2, 2, 3, 4, 9])
      if x < 0.25:
        cnt = rng.choice([1, 2, 3])
        fail = rng.random() < 0.15
        d = cnt + rng.choice([0, 0, 0, 1, -1])
        sugg = []
        for _ in range(max(0, d)):
          tok[0] += 1
          sugg.append({'params': tok[0], 'md': []})
        prog.append(('suggest', cnt, rng.choice(['w1', 'w2']), {'kind': 'other'} if fail else {'kind': 'ok', 'sugg': sugg, 'delta': []}))
      elif x < 0.40:
        prog.append(('complete', tid, rng.choice(['m', 'inf', 'none'])))
      elif x < 0.48:
        prog.append(('get_trial', tid))
      elif x < 0.54:
        prog.append(('add_measurement', tid))
      elif x < 0.60:
        prog.append(('stop', tid))
      elif x < 0.66:
        prog.append(('delete_trial', tid))
      elif x < 0.72:
        prog.append(('set_state', rng.choice(['ACTIVE', 'ABORTED', 'COMPLETED'])))
      elif x < 0.78:
        prog.append(('update_metadata', tid if rng.random() < 0.5 else None))
      elif x < 0.84:
        prog.append(('optimal',))
      elif x < 0.89:
        prog.append(('from_resource_name', rng.choice(['s', 's', 'missing'])))
      elif x < 0.94:
        tok[0] += 1
        prog.append(('add_trial', tok[0], rng.random() < 0.2))
      elif x < 0.965:
        prog.append(('check_early_stopping', tid))
      elif x < 0.985:
        prog.append(('list',))
      elif x < 0.993:
        prog.append(('delete_study',))          # later steps act on a study that is gone
      else:
        prog.append(('materialize_state',))
    if rng.random() < 0.25:
      # the tail of a quarter of the programs: the study is deleted (by another worker, say) and the
      # handle is used again - every deployment must report the same thing
      prog.append(('delete_study',))
      tok[0] += 1
      tail = [('suggest', 1, 'w1', {'kind': 'ok', 'sugg': [{'params': tok[0], 'md': []}], 'delta': []}), ('get_trial', 1), ('list',),
              ('materialize_state',), ('optimal',), ('add_trial', tok[0] + 1, False), ('set_state', 'ACTIVE'), ('update_metadata', None)]
      rng.shuffle(tail)
      prog += tail[:rng.randrange(2, 6)]
    return prog

  def run_program(dep, prog):
    out = []
    study = None
    # Route every implicit service lookup of the client library to THIS deployment (the attrs
    # default factory of VizierClient captured create_vizier_servicer_or_stub itself, so patch what
    # that function consults: the cached local servicer and the endpoint variable).
    orig_factory = vizier_client.create_vizier_servicer_or_stub
    orig_local = vizier_client._create_local_vizier_servicer  # pylint: disable=protected-access
    orig_endpoint = vizier_client.environment_variables.server_endpoint
    vizier_client.create_vizier_servicer_or_stub = lambda: dep.api
    vizier_client._create_local_vizier_servicer = lambda: dep.api  # pylint: disable=protected-access
    if dep.server is not None:
      vizier_client.environment_variables.server_endpoint = dep.server.endpoint
    orig_sleep = vizier_client.time.sleep
    vizier_client.time.sleep = lambda s: None
    try:
      for step in prog:
        op = step[0]
        try:
          if op == 'create':
            study = clients.Study.from_study_config(make_config(), owner='o', study_id='s')
            out.append('study:' + study.resource_name)
          elif op == 'create_long':
            study = clients.Study.from_study_config(make_config(), owner='o', study_id='n' * step[1])
            out.append('study-len:%d' % len(study.resource_name))
          elif op == 'suggest':
            dep.script.alg = step[3]
            ts = study.suggest(count=step[1], client_id=step[2])
            out.append(['trials', [t.id for t in ts]])
          elif op == 'complete':
            t = clients.Trial(study._client, step[1])  # pylint: disable=protected-access
            if step[2] == 'm':
              r = t.complete(vz.Measurement(metrics={'obj': float(step[1])}))
            elif step[2] == 'inf':
              r = t.complete(infeasible_reason='bad')
            else:
              r = t.complete()
            out.append(['completed', None if r is None else {k: v.value for k, v in r.metrics.items()}])
          elif op == 'get_trial':
            t = study.get_trial(step[1]).materialize()
            out.append(['trial', t.id, t.status.name, t.infeasible, {k: float(v.value) for k, v in t.parameters.items()},
                        None if t.final_measurement is None else {k: v.value for k, v in t.final_measurement.metrics.items()}])
          elif op == 'add_measurement':
            clients.Trial(study._client, step[1]).add_measurement(vz.Measurement(metrics={'obj': 0.5}, steps=3))  # pylint: disable=protected-access
            out.append('ok')
          elif op == 'stop':
            clients.Trial(study._client, step[1]).stop()  # pylint: disable=protected-access
            out.append('ok')
          elif op == 'delete_trial':
            clients.Trial(study._client, step[1]).delete()  # pylint: disable=protected-access
            out.append('ok')
          elif op == 'set_state':
            study.set_state(getattr(vz.StudyState, step[1]))
            out.append(['state', study.materialize_state().name])
          elif op == 'update_metadata':
            md = vz.Metadata({'k': 'v'})
            if step[1] is None:
              study.update_metadata(md)
            else:
              clients.Trial(study._client, step[1]).update_metadata(md)  # pylint: disable=protected-access
            out.append('ok')
          elif op == 'optimal':
            out.append(['optimal', sorted(t.id for t in study.optimal_trials())])
          elif op == 'from_resource_name':
            s2 = clients.Study.from_resource_name('owners/o/studies/' + step[1])
            out.append('study:' + s2.resource_name)
          elif op == 'add_trial':
            tr = vz.Trial(parameters={'x': float(step[1])})
            if step[2]:
              tr.complete(vz.Measurement(metrics={'obj': 1.0}))
            out.append(['added', study.add_trial(tr).id])
          elif op == 'add_big':
            tr = vz.Trial(parameters={'x': 0.5})
            tr.metadata['blob'] = 'x' * step[1]
            tr.complete(vz.Measurement(metrics={'obj': 1.0}))
            out.append(['added', study.add_trial(tr).id])
          elif op == 'check_early_stopping':
            dep.script.es = {'kind': 'ok', 'decisions': [[step[1], False]], 'delta': []}
            out.append(['should_stop', clients.Trial(study._client, step[1]).check_early_stopping()])  # pylint: disable=protected-access
          elif op == 'list':
            out.append(['list', [(t.id, t.status.name) for t in study.trials().get()]])
          elif op == 'delete_study':
            study.delete()
            out.append('deleted')
          elif op == 'materialize_state':
            out.append(['state', study.materialize_state().name])
        except Exception as e:  # pylint: disable=broad-except
          out.append(obs_exc(e))
    finally:
      vizier_client.create_vizier_servicer_or_stub = orig_factory
      vizier_client._create_local_vizier_servicer = orig_local  # pylint: disable=protected-access
      vizier_client.environment_variables.server_endpoint = orig_endpoint
      vizier_client.time.sleep = orig_sleep
    return json.loads(json.dumps(out))

  for pi in range(n):
    prog = gen_program(c.rng)
    be = 'ram' if (pi % 2 == 0 or c.tier == 'quick') else 'sqlmem'
    outs = {}
    for kind in KINDS:
      d = deploy.Deployment(kind, be)
      try:
        outs[kind] = run_program(d, prog)
        c.traces += 1
      finally:
        d.close()
    errs = sum(1 for o in outs['local'] if isinstance(o, str) and (o.startswith('ERR') or o.endswith('Error')))
    c.count(len(prog), ('c08prog', pi) if errs >= 1 else None, kind='c08-client-program')
    for kind in ('grpc', 'split'):
      for i, (a, b) in enumerate(zip(outs['local'], outs[kind])):
        if a != b:
          c.prop_fail('client-observation-differs:%s' % prog[i][0],
                      'client method %s observes %s in-process but %s through the %s deployment' % (prog[i], json.dumps(a)[:150], json.dumps(b)[:150], kind),
                      {'backend': be, 'deployment': kind, 'program': prog[:i + 1], 'local': outs['local'][:i + 1], kind: outs[kind][:i + 1]})
          break
    # promised exceptions, in every deployment
    for kind in KINDS:
      for step, o in zip(prog, outs[kind]):
        if step[0] == 'from_resource_name' and step[1] == 'missing' and o != 'ResourceNotFoundError':
          c.prop_fail('promised-exception-missing:from_resource_name', 'Study.from_resource_name of a missing study raised %s in the %s deployment' % (o, kind), {'deployment': kind, 'program': prog})
  c.sample({'client_program': prog, 'observations_local': outs['local']})
  # direct witnesses of the two theorems' counterexamples, on every deployment
  for kind in KINDS:
    d = deploy.Deployment(kind, 'ram')
    try:
      prog = [('create',), ('get_trial', 99), ('suggest', 1, 'w', {'kind': 'ok', 'sugg': [{'params': 1, 'md': []}], 'delta': []}),
              ('complete', 1, 'm'), ('set_state', 'COMPLETED'), ('suggest', 1, 'w2', {'kind': 'ok', 'sugg': [{'params': 2, 'md': []}], 'delta': []}), ('list',),
              ('delete_study',), ('suggest', 1, 'w3', {'kind': 'ok', 'sugg': [{'params': 3, 'md': []}], 'delta': []}), ('get_trial', 1), ('materialize_state',)]
      o = run_program(d, prog)
      witness_outs = globals().setdefault('_c08_witness', {})
      witness_outs[kind] = o
      if o[1] != 'ResourceNotFoundError':
        c.prop_fail('promised-exception-missing:get_trial', 'Study.get_trial of a missing trial raised %s instead of ResourceNotFoundError in the %s deployment' % (o[1], kind), {'deployment': kind, 'program': prog[:2], 'observations': o[:2]})
      if o[5] != ['trials', []]:
        c.prop_fail('promised-empty-suggestion-missing', 'suggest on a finished study returned %s instead of [] in the %s deployment' % (o[5], kind), {'deployment': kind, 'program': prog, 'observations': o})
      if len(o[6][1]) != 1:
        c.prop_fail('failed-call-changed-data:remote', 'a refused call (suggest on a COMPLETED study) created trials in the %s deployment: %s' % (kind, o[6]), {'deployment': kind, 'program': prog, 'observations': o})
    finally:
      d.close()
  # a study whose trials carry large metadata (five trials with 1 MiB each): the answer of ListTrials passes
  # gRPC's default 4 MiB receive limit; in-process there is no such limit
  big = {}
  for kind in KINDS:
    d = deploy.Deployment(kind, 'ram')
    try:
      big[kind] = run_program(d, [('create',)] + [('add_big', 1 << 20)] * 5 + [('list',), ('optimal',)])
      c.traces += 1
    finally:
      d.close()
  c.count(1, ('c08-large-payload',), kind='c08-large-payload')
  for kind in ('grpc', 'split'):
    if big[kind] != big['local']:
      i = next(i for i, (a, b) in enumerate(zip(big['local'], big[kind])) if a != b)
      c.prop_fail('client-observation-differs:large-payload',
                  'on a study with five trials of 1 MiB metadata each, step %d (%s) observes %s in-process but %s through the %s deployment' % (
                      i, ['create', 'add', 'add', 'add', 'add', 'add', 'list', 'optimal'][i], json.dumps(big['local'][i])[:100], json.dumps(big[kind][i])[:160], kind),
                  {'deployment': kind, 'program': 'create; 5 x add_trial(completed, metadata blob of 2^20 chars); list; optimal', 'local': big['local'], kind: big[kind]})
  # a study whose NAME is long (20000 characters): every refusal names the study, and error details travel in gRPC's
  # trailing metadata (16 KB hard limit on the client side)
  longn = {}
  for kind in KINDS:
    d = deploy.Deployment(kind, 'ram')
    try:
      longn[kind] = run_program(d, [('create_long', 20000), ('get_trial', 7), ('set_state', 'COMPLETED'),
                                    ('suggest', 1, 'w', {'kind': 'ok', 'sugg': [{'params': 1, 'md': []}], 'delta': []}), ('add_trial', 0.5, True)])
      c.traces += 1
    finally:
      d.close()
  c.count(1, ('c08-long-name',), kind='c08-long-name')
  for kind in ('grpc', 'split'):
    if longn[kind] != longn['local']:
      i = next(i for i, (a, b) in enumerate(zip(longn['local'], longn[kind])) if a != b)
      c.prop_fail('client-observation-differs:long-name',
                  'on a study with an id of 20000 characters, step %d (%s) observes %s in-process but %s through the %s deployment' % (
                      i, ['create', 'get_trial(7)', 'set_state(COMPLETED)', 'suggest', 'add_trial'][i], json.dumps(longn['local'][i])[:100], json.dumps(longn[kind][i])[:160], kind),
                  {'deployment': kind, 'program': 'create study with id n*20000; get_trial(7); set_state(COMPLETED); suggest; add_trial', 'local': longn['local'], kind: longn[kind]})
  wo = globals().get('_c08_witness', {})
  for kind in ('grpc', 'split'):
    if kind in wo and 'local' in wo and wo[kind] != wo['local']:
      i = next(i for i, (a, b) in enumerate(zip(wo['local'], wo[kind])) if a != b)
      c.prop_fail('client-observation-differs:deleted-study', 'on a deleted study the client observes %s in-process but %s through the %s deployment (step %d)' % (
          json.dumps(wo['local'][i])[:120], json.dumps(wo[kind][i])[:120], kind, i), {'deployment': kind, 'local': wo['local'], kind: wo[kind]})


def many_workers_stage(c):
  """Forty workers ask ONE study of a gRPC server for a suggestion at the same moment (a worker pool starting up).
  The hosted policy is the real PartiallySerializableDesignerPolicy, which reads the study and its trials through
  its supporter while SuggestTrials holds the study's operation lock.  In-process every call returns; behind the
  server every call must return too (the server's thread pool is finite: nothing a call waits for may itself need a
  thread of that pool)."""
  import threading
  from vcheck import deploy
  from vizier._src.service import study_pb2, vizier_service_pb2 as vsp
  n_workers = 40
  d = deploy.Deployment('grpc', 'ram', hosted=True)
  try:
    study = svc.create_study(d.api, 'o', 'many')
    d.script.alg = {'kind': 'ok', 'sugg': [{'params': 7, 'md': []}], 'delta': []}
    done, errs = [], []
    barrier = threading.Barrier(n_workers)

    def work(i):
      try:
        barrier.wait(timeout=30)
        op = d.api.SuggestTrials(vsp.SuggestTrialsRequest(parent=study.name, suggestion_count=1, client_id='w%d' % i), timeout=60)
        done.append((i, bool(op.done), op.HasField('error')))
      except Exception as e:  # pylint: disable=broad-except
        errs.append((i, type(e).__name__, str(e)[:80]))
    ts = [threading.Thread(target=work, args=(i,), daemon=True) for i in range(n_workers)]
    for t in ts:
      t.start()
    for t in ts:
      t.join(timeout=45)
    c.traces += 1
    c.count(1, ('c08-many-workers',), kind='c08-many-workers')
    ok = [x for x in done if x[1] and not x[2]]
    if len(ok) != n_workers:
      c.prop_fail('concurrent-suggests-do-not-all-return:grpc',
                  '%d workers asked one study of a gRPC server for a suggestion at the same moment: %d got a finished operation, %d an error, %d had not returned after 45 s (in-process all return)' % (
                      n_workers, len(ok), len(errs) + len([x for x in done if x[2]]), n_workers - len(done) - len(errs)),
                  {'deployment': 'grpc', 'workers': n_workers, 'returned': len(done), 'errors': errs[:3]})
  finally:
    d.close()
  # eight workers, each on its OWN study, three rounds, against the split deployment: their Pythia computations
  # overlap (different studies take different operation locks); in-process and behind one server all of them are served
  d = deploy.Deployment('split', 'ram', hosted=True)
  try:
    n = 8
    d.script.alg = {'kind': 'ok', 'sugg': [{'params': 9, 'md': []}], 'delta': []}
    studies = [svc.create_study(d.api, 'o', 'own%d' % i).name for i in range(n)]
    bad = []
    for rnd in range(3):
      barrier = threading.Barrier(n)
      res = [None] * n

      def work2(i):
        try:
          barrier.wait(timeout=30)
          op = d.api.SuggestTrials(vsp.SuggestTrialsRequest(parent=studies[i], suggestion_count=1, client_id='w'), timeout=60)
          res[i] = ('op', bool(op.done), op.error.message[:120] if op.HasField('error') else '')
        except Exception as e:  # pylint: disable=broad-except
          res[i] = ('raised', type(e).__name__, str(e)[:120])
      ts = [threading.Thread(target=work2, args=(i,), daemon=True) for i in range(n)]
      for t in ts:
        t.start()
      for t in ts:
        t.join(timeout=60)
      bad += [(rnd, i, r) for i, r in enumerate(res) if r != ('op', True, '')]
      try:
        for i in range(n):       # complete what was handed out, so that the next round needs the algorithm again
          for t in d.api.ListTrials(vsp.ListTrialsRequest(parent=studies[i])).trials:
            if t.state == study_pb2.Trial.State.ACTIVE:
              d.api.CompleteTrial(vsp.CompleteTrialRequest(name=t.name, final_measurement=svcreal.meas_proto([1, True])))
      except Exception as e:  # pylint: disable=broad-except
        # the deployment does not answer any more (every handler thread is stuck behind the calls above)
        bad.append((rnd, -1, ('raised', type(e).__name__, 'ListTrials / CompleteTrial after the round: ' + str(e)[:100])))
        break
    c.traces += 1
    c.count(1, ('c08-parallel-studies',), kind='c08-parallel-studies')
    if bad:
      c.prop_fail('concurrent-suggests-on-different-studies-fail:split',
                  'eight workers on eight studies asked the split deployment for a suggestion at the same moment (3 rounds): %d of 24 calls did not get a finished operation without error, e.g. round %d study %d: %s' % (
                      len(bad), bad[0][0], bad[0][1], bad[0][2]),
                  {'deployment': 'split', 'failures': [list(b) for b in bad[:6]]})
  finally:
    d.close()


def stub_deadline_stage(c):
  """The in-process service answers a call however long it takes.  The stubs the library hands out
  (stubs_util.create_vizier_server_stub / create_pythia_server_stub: what DefaultVizierServer.stub, the client
  library with an endpoint and the separate Pythia server use) must not put a DEADLINE on the calls made through
  them, or a call that runs longer (a slow algorithm) is answered DEADLINE_EXCEEDED behind gRPC only.  Observed on
  the server side: the time the call's context has left (None / effectively unbounded without a deadline)."""
  from concurrent import futures
  import grpc
  from google.protobuf import empty_pb2
  from vizier._src.service import stubs_util, vizier_service, pythia_service
  from vizier._src.service import vizier_service_pb2 as vsp, vizier_service_pb2_grpc, pythia_service_pb2_grpc
  seen = {}

  class RecVizier(vizier_service.VizierServicer):
    def ListStudies(self, request, context=None):
      seen['vizier'] = None if context is None else context.time_remaining()
      return vsp.ListStudiesResponse()

  class RecPythia(pythia_service.PythiaServicer):
    def Ping(self, request, context=None):
      seen['pythia'] = None if context is None else context.time_remaining()
      return empty_pb2.Empty()
  server = grpc.server(futures.ThreadPoolExecutor(max_workers=4))
  vizier_service_pb2_grpc.add_VizierServiceServicer_to_server(RecVizier(database_url=None), server)
  pythia_service_pb2_grpc.add_PythiaServiceServicer_to_server(RecPythia(), server)
  port = server.add_insecure_port('localhost:0')
  server.start()
  try:
    ep = 'localhost:%d' % port
    stubs_util.create_vizier_server_stub(ep).ListStudies(vsp.ListStudiesRequest(parent='owners/o'))
    if hasattr(RecPythia, 'Ping'):
      try:
        stubs_util.create_pythia_server_stub(ep).Ping(empty_pb2.Empty())
      except Exception:  # pylint: disable=broad-except
        pass
  finally:
    server.stop(0)
  for which, left in sorted(seen.items()):
    c.traces += 1
    c.count(1, ('stub-deadline', which), kind='stub-deadline:' + which)
    if left is not None and left < 3600.0:
      c.prop_fail('stub-imposes-call-deadline:' + which,
                  'a call made through the %s stub of stubs_util reaches the server with %.1f s left: calls through the '
                  'library\'s stubs carry a deadline, the in-process service has none - a call that runs longer (a slow '
                  'algorithm) is answered DEADLINE_EXCEEDED behind gRPC while the in-process service returns its result' % (which, left),
                  {'stub': which, 'time_remaining_seconds': left})


def run(c):
  # translator: regenerate the exception -> status facts from the current source (proof obligations)
  from translators import error_table
  facts, unknown = error_table.write(core.REPO, core.LEAN_DIR)
  c.add_obligation('translator: handle_exception / _report_lookup_errors recognised', not unknown, '; '.join(unknown))
  c.coverage_extra['error_table'] = facts
  from vcheck import pythiashapecheck
  pythiashapecheck.translate(c)
  c.proof_stage()
  pythiashapecheck.stage(c)
  rpc_histories(c)
  hosted_histories(c)
  client_programs(c)
  many_workers_stage(c)
  stub_deadline_stage(c)
  svc.cleanup()
  return c.finish(
      level='proof',
      rule='(a) stateful RPC histories replayed on the in-process servicer, a gRPC server and a gRPC server with a separate gRPC Pythia server (scripted policy shared), compared per step on responses (errors by class) and full datastore snapshots; (b) client-level programs over clients.Study/Trial incl. missing ids, finished studies, failing algorithms; non-trivial = history mixing >=2 mutating kinds / program with >=1 error observation',
      assumptions=['gRPC transport is trusted (loopback only)', 'error classes compared: FAILED_PRECONDITION, NOT_FOUND, ALREADY_EXISTS, other'])
