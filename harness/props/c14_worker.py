"""C14 worker: runs designer / benchmark cases on the REAL code and returns canonical
outputs (floats as exact hex).  Used in-process by props/c14.py and as a fresh process
(`python c14_worker.py < request.json > response.json`), where the request also says how to
perturb the ambient (global numpy / python RNG state, wall clock, unrelated study first;
PYTHONHASHSEED and the pid differ by construction of the subprocess)."""
import contextlib
import json
import math
import os
import sys

HARNESS = os.path.dirname(os.path.dirname(os.path.abspath(__file__)))
if HARNESS not in sys.path:
  sys.path.insert(0, HARNESS)

GP = ('gp_bandit', 'gp_ucb_pe')
NONGP_NAMES = ('random', 'quasi_random', 'grid', 'eagle', 'nsga2')
DESIGNERS = NONGP_NAMES + GP + ('scalarizing',)
_preimported = set()


def preimport(names):
  _shim()
  for n in names:
    if n not in _preimported:
      _preimported.add(n)
      designer_factory(n, {'small': True})
      if n in GP:
        from vizier._src.benchmarks.runners import benchmark_runner, benchmark_state  # noqa


def _shim():
  import shim
  shim.install()


# ------------------------------------------------------------------ ambient perturbation
ALONGSIDE = {'on': False}


@contextlib.contextmanager
def perturbed(spec):
  """spec: {'np_seed', 'py_seed', 'burn', 'clock_offset', 'unrelated', 'alongside'} (all optional).
  alongside: benchmark runs are stepped in lock-step with ANOTHER seeded benchmark run of the same process."""
  import datetime
  import random
  import time
  import numpy as np
  spec = spec or {}
  # modules with C extensions that use the datetime C-API (pandas, keras via tfp) must be
  # imported before datetime.datetime is replaced
  preimport(list(NONGP_NAMES) + list(spec.get('preimport', [])))
  saved_time, saved_dt = time.time, datetime.datetime
  if spec.get('np_seed') is not None:
    np.random.seed(spec['np_seed'])
    np.random.rand(int(spec.get('burn', 0)) + 1)
  if spec.get('py_seed') is not None:
    random.seed(spec['py_seed'])
    for _ in range(int(spec.get('burn', 0)) + 1):
      random.random()
  off = spec.get('clock_offset')
  trial_globals = None
  if off:
    real_time = saved_time

    def fake_time():
      return real_time() + off

    class ShiftedDateTime(saved_dt):
      @classmethod
      def now(cls, tz=None):
        return cls.fromtimestamp(real_time() + off, tz)

      @classmethod
      def utcnow(cls):
        return cls.utcfromtimestamp(real_time() + off)
    time.time = fake_time
    # The shift must be CONSISTENT: vz.Trial's creation_time default is the bound method
    # `datetime.datetime.now` captured when the class was defined (GP-UCB-PE compares
    # completion times with creation times).  Its attrs-generated __init__ reads the factory
    # from its globals; point that at the shifted clock too — or leave datetime alone.
    try:
      from vizier import pyvizier as vz
      g = vz.Trial.__init__.__globals__
      if '__attr_factory_creation_time' in g:
        trial_globals = (g, g['__attr_factory_creation_time'])
        g['__attr_factory_creation_time'] = lambda: datetime.datetime.now()
        datetime.datetime = ShiftedDateTime
    except Exception:  # pylint: disable=broad-except
      pass
  ALONGSIDE['on'] = bool(spec.get('alongside'))
  try:
    if spec.get('unrelated'):
      unrelated_study(int(spec.get('unrelated')))
    yield
  finally:
    ALONGSIDE['on'] = False
    time.time, datetime.datetime = saved_time, saved_dt
    if trial_globals is not None:
      trial_globals[0]['__attr_factory_creation_time'] = trial_globals[1]


def unrelated_study(seed):
  """Something else that ran before in the same process: other designers on another
  problem, drawing from their own and from the global generators."""
  import random
  import numpy as np
  spec = {'params': [{'name': 'u', 'type': 'double', 'lo': 0.0, 'hi': 5.0, 'scale': 'linear'},
                     {'name': 'k', 'type': 'int', 'lo': 0, 'hi': 9},
                     {'name': 'z', 'type': 'cat', 'values': ['p', 'q']}],
          'metrics': [{'name': 'other', 'goal': 'min'}]}
  for name in ('random', 'quasi_random', 'eagle', 'nsga2', 'grid'):
    run_designer_case({'designer': name, 'seed': seed + 17, 'problem': spec, 'prefix': [], 'rounds': 3,
                       'count': 3, 'leave_active': False, 'opts': {}})
  np.random.rand(5)
  random.random()
  try:
    import jax
    jax.random.uniform(jax.random.PRNGKey(seed), (3,)).block_until_ready()
  except Exception:  # pylint: disable=broad-except
    pass


# ------------------------------------------------------------------ problems, objective
def build_problem(spec):
  from vizier import pyvizier as vz
  p = vz.ProblemStatement()
  root = p.search_space.root
  for q in spec['params']:
    t = q['type']
    if t == 'double':
      st = {'linear': vz.ScaleType.LINEAR, 'log': vz.ScaleType.LOG}[q.get('scale', 'linear')]
      root.add_float_param(q['name'], q['lo'], q['hi'], scale_type=st)
    elif t == 'int':
      root.add_int_param(q['name'], q['lo'], q['hi'])
    elif t == 'discrete':
      root.add_discrete_param(q['name'], q['values'])
    elif t == 'cat':
      root.add_categorical_param(q['name'], q['values'])
    else:
      raise ValueError(t)
  for m in spec['metrics']:
    goal = vz.ObjectiveMetricGoal.MAXIMIZE if m['goal'] == 'max' else vz.ObjectiveMetricGoal.MINIMIZE
    p.metric_information.append(vz.MetricInformation(m['name'], goal=goal))
  return p


def unit(q, v):
  t = q['type']
  if t == 'double':
    if q.get('scale') == 'log':
      return (math.log(v) - math.log(q['lo'])) / (math.log(q['hi']) - math.log(q['lo']))
    return (v - q['lo']) / (q['hi'] - q['lo'])
  if t == 'int':
    return (v - q['lo']) / max(1, q['hi'] - q['lo'])
  if t == 'discrete':
    return sorted(q['values']).index(v) / max(1, len(q['values']) - 1)
  return q['values'].index(v) / max(1, len(q['values']) - 1)


def objective(spec, params):
  """deterministic metrics of a parameter assignment (pure Python float arithmetic)"""
  us = [unit(q, params[q['name']]) for q in spec['params']]
  vals = {}
  for j, m in enumerate(spec['metrics']):
    c = 0.3 + 0.4 * j
    vals[m['name']] = -sum((u - c) ** 2 for u in us) + 0.1 * j * sum(us)
  return vals


def enc(v):
  import numpy as np
  if isinstance(v, (bool, np.bool_)):
    return bool(v)
  if isinstance(v, (int, np.integer)):
    return int(v)
  if isinstance(v, (float, np.floating)):
    return float(v).hex()
  return str(v)


def enc_params(parameters):
  return {k: enc(parameters[k].value) for k in sorted(parameters)}


def plain_params(parameters):
  out = {}
  for k in parameters:
    v = parameters[k].value
    out[k] = v
  return out


# ------------------------------------------------------------------ designers
def small_acq():
  from vizier._src.algorithms.optimizers import eagle_strategy as es
  from vizier._src.algorithms.optimizers import vectorized_base as vb
  return vb.VectorizedOptimizerFactory(strategy_factory=es.VectorizedEagleStrategyFactory(),
                                       max_evaluations=1000, suggestion_batch_size=25)


def designer_factory(name, opts=None):
  """(problem, seed) -> designer, the way a user / the benchmark chain passes the seed"""
  opts = opts or {}
  if name == 'random':
    from vizier._src.algorithms.designers import random as m
    if opts.get('direct'):
      return lambda p, seed=None: m.RandomDesigner(p.search_space, seed=seed)
    return lambda p, seed=None: m.RandomDesigner.from_problem(p, seed=seed)
  if name == 'quasi_random':
    from vizier._src.algorithms.designers import quasi_random as m
    if opts.get('direct'):
      return lambda p, seed=None: m.QuasiRandomDesigner(p.search_space, seed=seed)
    return lambda p, seed=None: m.QuasiRandomDesigner.from_problem(p, seed=seed)
  if name == 'grid':
    from vizier._src.algorithms.designers import grid as m
    if opts.get('direct'):
      return lambda p, seed=None: m.GridSearchDesigner(p.search_space, shuffle_seed=seed)
    return lambda p, seed=None: m.GridSearchDesigner.from_problem(p, seed=seed)
  if name == 'eagle':
    from vizier._src.algorithms.designers.eagle_strategy import eagle_strategy as m
    return lambda p, seed=None: m.EagleStrategyDesigner(p, seed=seed)
  if name == 'nsga2':
    from vizier._src.algorithms.evolution import nsga2 as m
    pop = int(opts.get('population_size', 6))
    return lambda p, seed=None: m.NSGA2Designer(p, population_size=pop, first_survival_after=pop, seed=seed)
  if name == 'gp_bandit':
    from vizier._src.algorithms.designers import gp_bandit as m
    kw = {'acquisition_optimizer_factory': small_acq()} if opts.get('small') else {}
    return lambda p, seed=None: m.VizierGPBandit.from_problem(p, seed=seed, **kw)
  if name == 'gp_ucb_pe':
    import jax
    from vizier._src.algorithms.designers import gp_ucb_pe as m
    kw = {'acquisition_optimizer_factory': small_acq()} if opts.get('small') else {}

    def f(p, seed=None):
      if seed is None:
        return m.VizierGPUCBPEBandit(p, **kw)
      return m.VizierGPUCBPEBandit(p, rng=jax.random.PRNGKey(seed), **kw)
    return f
  if name == 'scalarizing':
    # the seeded factory of an ensemble of scalarized designers (multi-objective problems): the seed draws
    # the scalarization weights and is handed on to every member designer
    from vizier._src.algorithms.designers import random as rd
    from vizier._src.algorithms.designers import scalarization
    from vizier._src.algorithms.designers import scalarizing_designer as m
    return lambda p, seed=None: m.create_gaussian_scalarizing_designer(
        p, rd.RandomDesigner.from_problem, lambda w: scalarization.LinearScalarization(weights=w), num_ensemble=3, seed=seed)
  raise ValueError(name)


def run_designer_case(case):
  """fresh designer(seed) ; update(given history) ; rounds x (suggest, evaluate, update)."""
  _shim()
  from vizier import algorithms as vza
  from vizier import pyvizier as vz
  spec = case['problem']
  problem = build_problem(spec)
  try:
    d = designer_factory(case['designer'], case.get('opts'))(problem, seed=case['seed'])
    if (case.get('opts') or {}).get('weights_only'):
      # what the seed determines directly: the ensemble members (named by their scalarization weights)
      return {'suggestions': sorted(str(k) for k in d._designers)}   # pylint: disable=protected-access
    tid = 1
    prefix = []
    for h in case.get('prefix', []):
      t = vz.Trial(id=tid, parameters=h['params'])
      tid += 1
      t.complete(vz.Measurement(metrics=h['metrics']))
      prefix.append(t)
    if prefix:
      d.update(vza.CompletedTrials(prefix), vza.ActiveTrials())
    out = []
    pending = []
    for _ in range(case['rounds']):
      sugg = d.suggest(case['count'])
      trials = []
      for s in sugg:
        t = s.to_trial(tid)
        tid += 1
        out.append(enc_params(t.parameters))
        trials.append(t)
      done = pending + trials
      pending = []
      if case.get('leave_active') and len(done) > 1:
        pending = [done.pop()]
      for t in done:
        t.complete(vz.Measurement(metrics=objective(spec, plain_params(t.parameters))))
      d.update(vza.CompletedTrials(done), vza.ActiveTrials(pending))
      if case.get('restore') and isinstance(d, (vza.PartiallySerializableDesigner, vza.SerializableDesigner)):
        # what the service does between two suggest operations (PartiallySerializableDesignerPolicy):
        # persist the state, build a NEW instance from (problem, seed), load the state into it
        md = d.dump()
        if isinstance(d, vza.PartiallySerializableDesigner):
          # the service rebuilds the designer WITHOUT the original seed (the policy's factory call) and relies on
          # load() to restore everything that determines the continuation
          d = designer_factory(case['designer'], case.get('opts'))(problem, seed=None if case.get('restore') == 'seedless' else case['seed'])
          d.load(md)
        else:
          d = type(d).recover(md)
    return {'suggestions': out}
  except Exception as e:  # pylint: disable=broad-except
    return {'error': '%s: %s' % (type(e).__name__, str(e)[:300])}


# ------------------------------------------------------------------ benchmark runs
def run_benchmark_case(case):
  """BenchmarkStateFactory(seed) -> BenchmarkRunner.run: the whole trial sequence."""
  _shim()
  import numpy as np
  from vizier import pyvizier as vz
  from vizier._src.benchmarks.experimenters import experimenter as exp_lib
  from vizier._src.benchmarks.runners import benchmark_runner
  from vizier._src.benchmarks.runners import benchmark_state
  spec = case['problem']

  class SeededNoisyExperimenter(exp_lib.Experimenter):
    """deterministic objective + noise from a generator seeded with the experimenter seed"""

    def __init__(self, exp_seed):
      self._rng = np.random.default_rng(exp_seed)

    def problem_statement(self):
      return build_problem(spec)

    def evaluate(self, suggestions):
      for t in suggestions:
        ms = objective(spec, plain_params(t.parameters))
        ms = {k: v + float(self._rng.normal(0.0, 0.05)) for k, v in ms.items()}
        t.complete(vz.Measurement(metrics=ms))

  def experimenter_factory():
    if case.get('experimenter') == 'bbob':
      from vizier._src.benchmarks.experimenters import noisy_experimenter
      from vizier._src.benchmarks.experimenters import numpy_experimenter
      from vizier._src.benchmarks.experimenters.synthetic import bbob
      base = numpy_experimenter.NumpyExperimenter(bbob.Sphere, build_problem(spec))
      return noisy_experimenter.NoisyExperimenter.from_type(base, 'SEVERE_ADDITIVE_GAUSSIAN', seed=case['exp_seed'])
    if case.get('experimenter') == 'hashinf':
      # infeasibility decided by a hash of the parameters and the experimenter seed
      from vizier._src.benchmarks.experimenters import infeasible_experimenter
      from vizier._src.benchmarks.experimenters import numpy_experimenter
      from vizier._src.benchmarks.experimenters.synthetic import bbob
      base = numpy_experimenter.NumpyExperimenter(bbob.Sphere, build_problem(spec))
      return infeasible_experimenter.HashingInfeasibleExperimenter(base, infeasible_prob=0.5, seed=case['exp_seed'])
    if case.get('experimenter') == 'factory':
      # the benchmark factory's stacking: shift, normalise, discretise / categorise on a grid, permute, noise
      from vizier._src.benchmarks.experimenters import experimenter_factory as ef
      return ef.SingleObjectiveExperimenterFactory(
          ef.BBOBExperimenterFactory('Sphere', 4), shift=np.array([0.5, -0.3, 0.1, 0.2]), noise_type='SEVERE_ADDITIVE_GAUSSIAN',
          noise_seed=case['exp_seed'], num_normalization_samples=4, discrete_dict={1: 3}, categorical_dict={0: 4, 2: 3, 3: 5},
          permute_categoricals=True, permute_seed=case['exp_seed'])()      # THREE permuted parameters: one seeded stream feeds them in some order
    return SeededNoisyExperimenter(case['exp_seed'])
  try:
    factory = benchmark_state.ExperimenterDesignerBenchmarkStateFactory(
        experimenter_factory=experimenter_factory,
        designer_factory=designer_factory(case['designer'], case.get('opts')))
    state = factory(seed=case['seed'])
    subs = [benchmark_runner.GenerateSuggestions(2), benchmark_runner.EvaluateActiveTrials(1),
            benchmark_runner.GenerateAndEvaluate(case.get('batch', 2)), benchmark_runner.FillActiveTrials(3),
            benchmark_runner.EvaluateActiveTrials()]
    if ALONGSIDE['on']:
      # another study of the same process progresses at the same time: one repeat of this run, one of the other
      other_spec = {'params': [{'name': 'u', 'type': 'double', 'lo': 0.0, 'hi': 5.0, 'scale': 'linear'},
                               {'name': 'k', 'type': 'int', 'lo': 0, 'hi': 9}],
                    'metrics': [{'name': 'other', 'goal': 'min'}]}

      class Other(exp_lib.Experimenter):
        def problem_statement(self):
          return build_problem(other_spec)

        def evaluate(self, suggestions):
          for t in suggestions:
            t.complete(vz.Measurement(metrics={'other': float(t.parameters['u'].value) + float(t.parameters['k'].value)}))
      other = benchmark_state.ExperimenterDesignerBenchmarkStateFactory(
          experimenter_factory=Other, designer_factory=designer_factory('eagle', {}))(seed=case['seed'] + 101)
      once = benchmark_runner.BenchmarkRunner(benchmark_subroutines=subs, num_repeats=1)
      for _ in range(case['repeats']):
        once.run(other)
        once.run(state)
    else:
      runner = benchmark_runner.BenchmarkRunner(benchmark_subroutines=subs, num_repeats=case['repeats'])
      runner.run(state)
    out = []
    for t in state.algorithm.supporter.GetTrials():
      ms = {}
      if t.final_measurement is not None:
        ms = {k: enc(m.value) for k, m in sorted(t.final_measurement.metrics.items())}
      out.append({'id': int(t.id), 'params': enc_params(t.parameters), 'status': t.status.name, 'metrics': ms})
    return {'trials': out}
  except Exception as e:  # pylint: disable=broad-except
    return {'error': '%s: %s' % (type(e).__name__, str(e)[:300])}


def run_case(case):
  if case['kind'] == 'benchmark':
    return run_benchmark_case(case)
  return run_designer_case(case)


def main():
  req = json.load(sys.stdin)
  _shim()
  try:
    from absl import logging as absl_logging
    absl_logging.set_verbosity(absl_logging.FATAL)
    absl_logging.set_stderrthreshold('fatal')
    import logging
    logging.disable(logging.CRITICAL)
  except Exception:  # pylint: disable=broad-except
    pass
  res = []
  preimport(sorted(set(c['designer'] for c in req['cases'])))
  with perturbed(req.get('perturb')):
    for case in req['cases']:
      res.append(run_case(case))
  out = {'results': res, 'pid': os.getpid(), 'hashseed': os.environ.get('PYTHONHASHSEED')}
  sys.stdout.write('\n@@C14@@' + json.dumps(out) + '\n')


if __name__ == '__main__':
  main()
