import importlib, os, sys
HERE = os.path.dirname(os.path.abspath(__file__))
sys.path.insert(0, HERE)
from vcheck import core
try:
  from absl import logging as _absl_logging
  _absl_logging.set_verbosity(_absl_logging.FATAL)
  _absl_logging.set_stderrthreshold('fatal')
  import logging as _pylogging
  _pylogging.disable(_pylogging.CRITICAL)
except Exception:
  pass

def _main():
  if len(sys.argv) < 2:
    print('usage: check <Cxx> [--tier quick|thorough]', file=sys.stderr); sys.exit(2)
  pid = sys.argv[1]
  try:
    mod = importlib.import_module('props.' + pid.lower())
  except ImportError as e:
    print('INFRA-ERROR no check module for %s: %s' % (pid, e), file=sys.stderr); sys.exit(2)
  try:
    core.main(mod.run)
  except SystemExit:
    raise
  except core.InfraError as e:
    print('INFRA-ERROR %s' % e, file=sys.stderr); sys.exit(2)
  except Exception:
    import traceback; traceback.print_exc(); sys.exit(2)
_main()
